"""
Reference model for timeseries alignment shared by C03 and C08 (DESIGN.md section 4).

A model series is a dict  day-number -> float or None (None = the series has a row there holding NaN);
a model frame is a dict column -> model series over the same day set.  Nothing here calls pyg_base.
"""
import itertools

import numpy as np
import pandas as pd

T0 = pd.Timestamp('2020-01-01')


def day(i):
    return T0 + pd.Timedelta(days=int(i))


def daynum(t):
    return int((pd.Timestamp(t) - T0) / pd.Timedelta(days=1))


MASKS = ['none', 'first', 'interior', 'last', 'all']


def nan_positions(n, mask):
    if mask == 'none' or n == 0:
        return set()
    if mask == 'first':
        return {0}
    if mask == 'last':
        return {n - 1}
    if mask == 'all':
        return set(range(n))
    if mask == 'interior':
        return set(range(1, n - 1))
    raise ValueError(mask)


def series_variants(T, masks=MASKS):
    """all distinct (days, nan-flags) over a T-day timeline: list of (days tuple, nanset tuple)"""
    seen, res = set(), []
    for bits in itertools.product([0, 1], repeat=T):
        days = tuple(i for i in range(T) if bits[i])
        for m in masks:
            nans = tuple(sorted(days[p] for p in nan_positions(len(days), m)))
            if (days, nans) not in seen:
                seen.add((days, nans))
                res.append([list(days), list(nans)])
    return res


def model_series(desc, k, values=None):
    """desc = [days, nandays]; value at day i of series number k is 100*(k+1)+i (or values[i])"""
    days, nans = desc
    return {d: (None if d in nans else (float(100 * (k + 1) + d) if values is None else values[d])) for d in days}


def build_series(ms, name=None):
    days = sorted(ms)
    idx = pd.DatetimeIndex([day(d) for d in days])
    return pd.Series([np.nan if ms[d] is None else ms[d] for d in days], index=idx, dtype=float, name=name)


def build_series_freq(ms, name=None):
    """like build_series, but when the days form an arithmetic progression (>= 2 points) the index is a pd.date_range and carries a `freq`"""
    days = sorted(ms)
    if len(days) >= 2 and len(set(b - a for a, b in zip(days, days[1:]))) == 1:
        step = days[1] - days[0]
        idx = pd.date_range(day(days[0]), periods=len(days), freq='%dD' % step)
        assert idx.freq is not None and [daynum(t) for t in idx] == days
        return pd.Series([np.nan if ms[d] is None else ms[d] for d in days], index=idx, dtype=float, name=name)
    return build_series(ms, name)


def build_frame(mf):
    """mf: dict col -> model series (same day set)"""
    cols = list(mf)
    days = sorted(mf[cols[0]]) if cols else []
    idx = pd.DatetimeIndex([day(d) for d in days])
    return pd.DataFrame({c: [np.nan if mf[c][d] is None else mf[c][d] for d in days] for c in cols}, index=idx, columns=cols, dtype=float)


def common_days(daysets, how, explicit=None):
    """daysets: list of sets in flattening order"""
    if how == 'explicit':
        return sorted(explicit)
    if not daysets:
        return None
    h = how[0].lower()
    if h == 'i':
        s = set(daysets[0])
        for d in daysets[1:]:
            s &= set(d)
        return sorted(s)
    if h == 'o':
        s = set()
        for d in daysets:
            s |= set(d)
        return sorted(s)
    if h == 'l':
        return sorted(daysets[0])
    if h == 'r':
        return sorted(daysets[-1])
    raise ValueError(how)


def align(ms, days, method=None):
    """as-of alignment of one model series onto `days`: the original value where it is not NaN, else NaN, or with a fill method
       the last (ffill) / next (bfill) non-NaN ORIGINAL observation at or before / after the timestamp"""
    obs = sorted(d for d, v in ms.items() if v is not None)
    res = {}
    for t in days:
        v = ms.get(t)
        if v is None and method in ('ffill', 'bfill'):
            if method == 'ffill':
                prev = [d for d in obs if d <= t]
                v = ms[prev[-1]] if prev else None
            else:
                nxt = [d for d in obs if d >= t]
                v = ms[nxt[0]] if nxt else None
        res[t] = v
    return res


def series_problem(s, expect, what='series'):
    """None if the pandas Series s equals the model `expect` (index exactly, sorted, values NaN-aware), else text"""
    if not isinstance(s, pd.Series):
        return '%s: expected a Series, got %s' % (what, type(s).__name__)
    want_idx = [day(d) for d in sorted(expect)]
    got_idx = list(s.index)
    if got_idx != want_idx:
        return '%s: index %s, expected %s' % (what, [daynum(t) if isinstance(t, pd.Timestamp) else t for t in got_idx], sorted(expect))
    for t, d in zip(got_idx, sorted(expect)):
        g, e = s[t], expect[d]
        if not cell_ok(g, e):
            return '%s: value at day %d is %r, expected %r' % (what, d, g, e)
    return None


def cell_ok(g, e):
    try:
        gn = g is None or (isinstance(g, (float, np.floating)) and g != g)
    except Exception:
        gn = False
    if e is None:
        return bool(gn)
    if gn:
        return False
    try:
        return bool(g == e) or abs(float(g) - float(e)) <= 1e-12 * max(1.0, abs(float(e)))
    except Exception:
        return False


def frame_problem(f, expect, cols, what='frame'):
    """expect: dict col -> model series; cols: the expected column set (order not checked)"""
    if not isinstance(f, pd.DataFrame):
        return '%s: expected a DataFrame, got %s' % (what, type(f).__name__)
    if sorted(map(str, f.columns)) != sorted(map(str, cols)):
        return '%s: columns %s, expected %s' % (what, list(f.columns), sorted(cols))
    for c in cols:
        p = series_problem(f[c], expect[c], '%s[%s]' % (what, c))
        if p:
            return p
    return None
