"""
./check <ID> [--tier quick|thorough] [--replay PATH] [--stride K --digest-only]

Imports pyg_base from ${VERIF_REPO:-/repo}/src (the current working tree), runs the property's suites to
completion, writes /verif/evidence/<ID>.json and replay artefacts, prints KNOWN-FINDING / VIOLATION lines,
exits 0 (held on everything explored) or 1 (violation).
"""
import argparse
import hashlib
import importlib
import json
import os
import subprocess
import sys
import time
import warnings

HERE = os.path.dirname(os.path.dirname(os.path.abspath(__file__)))   # /verif
REPO = os.environ.get('VERIF_REPO', '/repo')


def _bootstrap():
    src = os.path.join(REPO, 'src')
    if not os.path.isdir(os.path.join(src, 'pyg_base')):
        print('ERROR: %s/pyg_base not found' % src)
        sys.exit(2)
    sys.path.insert(0, src)
    if HERE not in sys.path:
        sys.path.insert(0, HERE)
    warnings.filterwarnings('ignore')
    import logging
    import pyg_base
    got = os.path.realpath(os.path.dirname(pyg_base.__file__))
    want = os.path.realpath(os.path.join(src, 'pyg_base'))
    if got != want:
        print('ERROR: imported pyg_base from %s, expected %s' % (got, want))
        sys.exit(2)
    logging.getLogger('pyg').setLevel(logging.CRITICAL + 1)
    logging.getLogger('pyg').handlers[:] = []
    logging.getLogger('pyg').addHandler(logging.NullHandler())
    logging.getLogger('pyg').propagate = False


def load_known():
    p = os.path.join(HERE, 'known_findings.json')
    if not os.path.exists(p):
        return []
    with open(p) as f:
        return json.load(f).get('findings', [])


def match_known(v, known, pid):
    for k in known:
        if k.get('property') != pid or k.get('status') != 'open':
            continue
        if k.get('kind') != v['kind']:
            continue
        if k.get('suite') and k['suite'] != v['suite']:
            continue
        m = k.get('match', {})
        if all(v['sig'].get(a) == b for a, b in m.items()):
            return k
    return None


def write_replay(pid, v, tier):
    d = os.path.join(HERE, 'replays', pid)
    os.makedirs(d, exist_ok=True)
    body = dict(property=pid, suite=v['suite'], kind=v['kind'], sig=v['sig'], message=v['msg'], case=v['case'],
                tier=tier)
    s = json.dumps(body, sort_keys=True, indent=1)
    name = hashlib.sha1(json.dumps([v['suite'], v['kind'], v['sig'], v['case']], sort_keys=True).encode()).hexdigest()[:16]
    path = os.path.join(d, name + '.json')
    with open(path, 'w') as f:
        f.write(s)
    return path


def do_replay(mod, pid, path):
    with open(path) as f:
        body = json.load(f)
    tier = body.get('tier', 'thorough')
    suites = {s.name: s for t in ('quick', 'thorough') for s in mod.suites(t, 0)} if tier != 'quick' else \
             {s.name: s for s in mod.suites('quick', 0)}
    if tier != 'quick':   # prefer the suite object of the recorded tier
        suites.update({s.name: s for s in mod.suites(tier, 0)})
    suite = suites.get(body['suite'])
    if suite is None:
        print('ERROR: suite %r not found' % body['suite'])
        return 2
    case = body['case']
    obs = []
    for _ in range(2):
        c = json.loads(json.dumps(case))
        out = suite.replay(c) if not (suite.kind == 'E1') else suite.replay(c)
        obs.append(sorted((k, json.dumps(s, sort_keys=True, default=repr), m) for k, s, m in out.v))
    if obs[0] != obs[1]:
        print('ERROR: replay is not deterministic (two runs of the same case differ)')
        print(obs[0]); print(obs[1])
        return 2
    print('replay %s suite=%s' % (path, body['suite']))
    print('case: %s' % json.dumps(case)[:2000])
    if not obs[0]:
        print('replay: case passes on this tree')
        return 0
    known = load_known()
    bad = 0
    for k, s, m in obs[0]:
        v = dict(kind=k, sig=json.loads(s), suite=body['suite'])
        kf = match_known(v, known, pid)
        if kf:
            print('KNOWN-FINDING: property=%s %s' % (pid, kf['what']))
        else:
            bad += 1
            print('violation kind=%s sig=%s\n  %s' % (k, s, m))
    if bad:
        print('VIOLATION property=%s replay=%s' % (pid, path))
        return 1
    return 0


def main(argv=None):
    ap = argparse.ArgumentParser()
    ap.add_argument('prop')
    ap.add_argument('--tier', default=os.environ.get('VERIF_TIER', 'quick'), choices=['quick', 'thorough'])
    ap.add_argument('--replay')
    ap.add_argument('--stride', type=int, default=1)
    ap.add_argument('--digest-only', action='store_true')
    ap.add_argument('--suite', action='append', help='run only these suites (debugging; evidence marked partial)')
    ap.add_argument('--no-crosscheck', action='store_true')
    a = ap.parse_args(argv)
    pid = a.prop.upper()
    try:
        seed = int(os.environ.get('VERIF_SEED', '0') or 0)
    except ValueError:
        seed = 0

    if os.environ.get('PYTHONHASHSEED') is None:
        env = dict(os.environ, PYTHONHASHSEED='0')
        os.execve(sys.executable, [sys.executable, '-W', 'ignore', '-m', 'mc.runner'] + (argv or sys.argv[1:]), env)

    _bootstrap()
    from mc import engine
    mod = importlib.import_module('mc.props.' + pid.lower())
    if a.replay:
        return do_replay(mod, pid, a.replay)

    t0 = time.time()
    suites = mod.suites(a.tier, seed)
    if a.suite:
        suites = [s for s in suites if s.name in a.suite]
    log = (lambda *x: None) if a.digest_only else print
    log('check %s tier=%s seed=%d repo=%s nproc=%d hashseed=%s' % (pid, a.tier, seed, REPO, engine.NPROC,
                                                                   os.environ.get('PYTHONHASHSEED')))
    tot = engine.run_suites(suites, seed=seed, stride=a.stride, log=log)
    if a.digest_only:
        print('DIGEST %016x cases=%d viol=%d' % (tot.digest, tot.cases, tot.nviol))
        return 0

    known = load_known()
    kf_hit = {}
    unknown = []
    for v in tot.viol:
        k = match_known(v, known, pid)
        if k:
            kf_hit.setdefault(k['key'], [k, 0])[1] += 1
        else:
            unknown.append(v)
    # violations beyond the per-shard storage cap are counted but not stored: if every stored one is known
    # and more were counted than stored, we cannot vouch for the rest -> treat as unknown
    stored = len(tot.viol)
    overflow = tot.nviol - stored
    for key, (k, n) in sorted(kf_hit.items()):
        print('KNOWN-FINDING: property=%s %s [%d stored occurrences]' % (pid, k['what'], n))

    # hash-seed determinism self-test (quick tier): a stride of the cases under another PYTHONHASHSEED
    cross = None
    if a.tier == 'quick' and not a.no_crosscheck and not a.suite and getattr(mod, 'HASHSEED_CROSSCHECK', True):
        stride = getattr(mod, 'CROSSCHECK_STRIDE', 25)
        digs = []
        for hs in ('0', '1'):
            env = dict(os.environ, PYTHONHASHSEED=hs)
            p = subprocess.run([sys.executable, '-W', 'ignore', '-m', 'mc.runner', pid, '--tier', a.tier,
                                '--stride', str(stride), '--digest-only'], env=env, cwd=HERE,
                               capture_output=True, text=True)
            line = [l for l in p.stdout.splitlines() if l.startswith('DIGEST')]
            digs.append(line[-1] if line else 'ERROR rc=%s %s' % (p.returncode, (p.stderr or p.stdout)[-300:]))
        cross = dict(stride=stride, hashseed0=digs[0], hashseed1=digs[1], identical=digs[0] == digs[1])
        log('  hashseed crosscheck: %s' % cross)

    rc = 0
    lines = []
    seen_sig = set()
    for v in unknown:
        sk = (v['suite'], v['kind'], json.dumps(v['sig'], sort_keys=True))
        if sk in seen_sig:
            continue
        seen_sig.add(sk)
        if len(lines) >= 20:
            break
        path = write_replay(pid, v, a.tier)
        lines.append('VIOLATION property=%s replay=%s suite=%s kind=%s sig=%s :: %s' % (
            pid, path, v['suite'], v['kind'], json.dumps(v['sig'], sort_keys=True), v['msg'].splitlines()[0][:300] if v['msg'] else ''))
    if unknown:
        rc = 1
    elif tot.lost > 0:
        # more distinct violation signatures than a shard stores: some have no stored representative, so they cannot be matched
        # against the known findings -> they count as unknown
        print('VIOLATION property=%s replay=none :: %d violations with signatures beyond the per-shard storage cap (run the suite alone to see them)' % (pid, tot.lost))
        rc = 1
    elif overflow > 0 and kf_hit:
        # all stored violations are known findings; the uncounted remainder is reported, not failed, only if
        # the module declares its known signature total (conservative otherwise)
        log('  note: %d further violations counted beyond the storage cap (stored ones all match known findings)' % overflow)
    vacuous = len(tot.classes) < 2 and tot.cases > 1
    if cross is not None and not cross['identical']:
        print('SELFTEST-FAILED: verdict digests differ between PYTHONHASHSEED=0 and 1 (harness nondeterminism)')
        rc = rc or 3
    if vacuous:
        print('SELFTEST-FAILED: vacuous exploration (a single outcome class from %d cases)' % tot.cases)
        rc = rc or 3
    for l in lines:
        print(l)

    wall = time.time() - t0
    ev = dict(
        property_id=pid, tier=a.tier, seed=seed, level='model_checking',
        coverage=dict(
            states=tot.states, transitions=tot.transitions, traces_validated_against_impl=tot.cases,
            evaluations=tot.evals, distinct_nontrivial=len(tot.nt),
            rule=getattr(mod, 'RULE', '') or '; '.join('%s: %s' % (s['suite'], s['rule']) for s in tot.suites),
            samples=tot.samples[:12],
            exhaustive=bool(tot.exhaustive and a.stride == 1 and not a.suite),
            outcome_classes=len(tot.classes),
            outcome_class_names=sorted(tot.classes)[:60],
            pruned_by_size=tot.pruned,
            suites=tot.suites,
            known_findings_matched=sorted(kf_hit),
            hashseed_crosscheck=cross,
            verdict_digest='%016x' % tot.digest,
            repo=REPO, nproc=engine.NPROC,
            explanation=getattr(mod, 'EXPLANATION', ''),
        ),
        assumptions=list(getattr(mod, 'ASSUMPTIONS', [])),
        wall_s=round(wall, 2),
        violations=len(unknown) + (0 if not unknown else max(0, overflow)),
    )
    evdir = os.path.join(HERE, 'evidence')
    os.makedirs(evdir, exist_ok=True)
    evp = os.path.join(evdir, pid + '.json')
    with open(evp, 'w') as f:
        json.dump(ev, f, indent=1, sort_keys=True, default=repr)
    _validate(evp)
    print('%s %s tier=%s: cases=%d states=%d transitions=%d nontrivial=%d classes=%d violations=%d known=%d wall=%.1fs' % (
        'PASS' if rc == 0 else 'FAIL', pid, a.tier, tot.cases, tot.states, tot.transitions, len(tot.nt),
        len(tot.classes), len(unknown), len(kf_hit), wall))
    return rc


def _validate(evp):
    vt = '/opt/veriftools/pyvenv/bin/python'
    tool = os.path.join(HERE, 'tools', 'validate.py')
    if os.path.exists(vt) and os.path.exists(tool):
        p = subprocess.run([vt, tool, 'evidence', evp], capture_output=True, text=True)
        if p.returncode != 0:
            print('EVIDENCE-INVALID: %s' % (p.stdout + p.stderr)[-500:])


if __name__ == '__main__':
    sys.exit(main())
