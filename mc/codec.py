"""
Tagged JSON codec for case descriptors (DESIGN.md section 3).

enc() is rarely needed (generators write descriptors directly); dec() builds *fresh* Python objects, and
objects carrying the same {"$":"nan","id":k} tag decode to the SAME object within one Decoder (so "two NaNs
of different identity" is expressible and replayable).
"""
import datetime
import math

import numpy as np
import pandas as pd


def NAN(i=0):
    return {'$': 'nan', 'id': i}


def DT(s):
    return {'$': 'dt', 'v': s}


def DATE(s):
    return {'$': 'date', 'v': s}


def TUP(*xs):
    return {'$': 'tuple', 'v': list(xs)}


class Decoder:
    def __init__(self):
        self.nans = {}

    def __call__(self, x):
        return self.dec(x)

    def dec(self, x):
        if isinstance(x, list):
            return [self.dec(i) for i in x]
        if isinstance(x, dict):
            t = x.get('$')
            if t is None:
                return {k: self.dec(v) for k, v in x.items()}
            if t == 'nan':
                i = x.get('id', 0)
                if i == 'np':
                    return np.nan
                if i not in self.nans:
                    self.nans[i] = float('nan')      # a fresh object per id
                return self.nans[i]
            if t == 'dt':
                return datetime.datetime.fromisoformat(x['v'])
            if t == 'date':
                return datetime.date.fromisoformat(x['v'])
            if t == 'time':
                return datetime.time.fromisoformat(x['v'])
            if t == 'td':
                return datetime.timedelta(seconds=x['v'])
            if t == 'tuple':
                return tuple(self.dec(i) for i in x['v'])
            if t == 'dict':       # dict with explicit item order / non-str keys
                return {self.dec(k): self.dec(v) for k, v in x['v']}
            if t == 'inf':
                return math.inf * x.get('sign', 1)
            if t == 'np.float64':
                return np.float64(self.dec(x['v']))
            if t == 'np.float32':
                return np.float32(self.dec(x['v']))
            if t == 'np.int64':
                return np.int64(x['v'])
            if t == 'np.str_':
                return np.str_(x['v'])
            if t == 'np.datetime64':
                return np.datetime64(x['v'])
            if t == 'ts':
                return pd.Timestamp(x['v'])
            if t == 'range':
                return range(*x['v'])
            if t == 'array':
                return np.array(self.dec(x['v']), dtype=x.get('dtype'))
            if t == 'series':
                idx = pd.DatetimeIndex([pd.Timestamp(i) for i in x['index']])
                return pd.Series([self._f(v) for v in x['values']], index=idx, dtype=x.get('dtype', float),
                                 name=x.get('name'))
            if t == 'frame':
                idx = pd.DatetimeIndex([pd.Timestamp(i) for i in x['index']])
                data = {c: [self._f(v) for v in col] for c, col in zip(x['columns'], x['values'])}
                return pd.DataFrame(data, index=idx, columns=list(x['columns']), dtype=x.get('dtype', float))
            raise ValueError('unknown tag %r' % t)
        return x

    def _f(self, v):
        return np.nan if v is None else self.dec(v)


def dec(x):
    return Decoder().dec(x)


def is_nan(x):
    return isinstance(x, (float, np.floating)) and x != x


def cell_eq(a, b):
    """equality of table cells as a user sees it: NaN equals NaN, 1 == 1.0, otherwise Python =="""
    if is_nan(a) or is_nan(b):
        return is_nan(a) and is_nan(b)
    try:
        r = a == b
        return bool(r)
    except Exception:
        return a is b


def row_eq(a, b):
    return set(a.keys()) == set(b.keys()) and all(cell_eq(a[k], b[k]) for k in a)


def rows_eq(A, B):
    return len(A) == len(B) and all(row_eq(a, b) for a, b in zip(A, B))


def show(x, n=300):
    s = repr(x)
    return s if len(s) <= n else s[:n] + '...'
