"""
C14 -- eq is a NaN-aware, type-strict equivalence on values, containers and pandas (DESIGN.md section 4, C14).

E2 suites (one case = one entry e of the extended universe E = U + fresh-NaN structural copies of U):
  eq_laws        all ordered pairs (e, j) and all triples (e, j, k) of E.  eq over all pairs is computed once per
                 process into a table (like c07.cmp_laws); triples are decided by table lookup.
                 Checked per pair: no exception, bool / np.bool_ result, reflexivity (x with itself and with its
                 copy that holds different NaN objects), symmetry, and agreement with a boring reference model:
                 different container kinds at any depth reached by both -> False; NaN-free plain values -> ==;
                 arrays -> same shape and all cells equal NaN-aware; pandas -> same class, index labels, column
                 labels and all cells equal NaN-aware; NaN equals NaN at any depth.  Where the statement is silent
                 (numpy scalars / Timestamps against other scalars) the model says "unspecified" and only the laws apply.
  in_membership  in_(x, seq) == any(eq(x, s) for s in seq) for every x in E and a closed menu of sequences drawn from E.
"""
import datetime

import numpy as np
import pandas as pd

from mc.engine import Suite, Out
from mc.codec import show

PROPERTY = 'C14'
ASSUMPTIONS = [
    'universe: None, bool, int, float (several NaN objects), str, numpy scalars, date / datetime / Timestamp / datetime64, nested list / tuple / '
    'dict / Dict / dictattr with str keys, numpy arrays (int, float, str, bool, object, datetime64; 0-d to 3-d; empty), float / int Series and '
    'DataFrames on a DatetimeIndex; pandas extension arrays, sets, functools.partial, objects with an exotic __eq__ and non-str dict keys are excluded',
    'transitivity is not asserted on triples whose leaves (at any depth) span two of the three date groups {plain datetime.date, np.datetime64 of unit '
    'Y/M/W/D}, {datetime, pd.Timestamp}, {np.datetime64 of a clock unit h..ns}: the == of numpy / pandas / datetime is itself intransitive there '
    '(date == datetime64[D] == Timestamp but date != Timestamp; date == datetime64[D] == datetime64[ns] but date != datetime64[ns]; '
    'datetime == Timestamp == datetime64[ns] but datetime != datetime64[ns]) and eq is specified to agree with == on plain values; those values '
    'take part in every other check, and triples inside one group are checked',
    'the reference model is silent (laws only) for a numpy scalar / Timestamp / datetime64 / date-vs-other-type against another non-NaN scalar; '
    'it asserts == only when both scalars are exactly None / bool / int / float / str / datetime / date',
    'NaN against any non-NaN scalar is expected to be unequal',
    'array cells and pandas cells are compared with == (NaN-aware), so an int array equals a float array with the same cells (as eq(1, 1.0)); '
    'dtype is not part of array identity; Series.name / index names / freq are left at their defaults',
    'pandas column order is positional: frames with permuted columns are expected to be unequal ("only if index, columns and all cells match")',
]

# ------------------------------------------------------------------------------------------------ universe

_D = [datetime.datetime(2000, 1, 3), datetime.datetime(2000, 1, 4), datetime.datetime(2000, 1, 5)]


def _idx(*days):
    return pd.DatetimeIndex([_D[d] for d in days])


def universe(tier):
    """list of (name, value); fresh objects on every call. The quick universe is a prefix of the thorough one."""
    from pyg_base import Dict, dictattr
    nan1, nan2, nan3 = float('nan'), float('nan'), float('nan')
    dt1 = datetime.datetime(2000, 1, 1)
    A, B, E0 = _idx(0, 1), _idx(1, 2), pd.DatetimeIndex([])
    s_A = pd.Series([1., 2.], A)
    buf, sq = np.array([1, 2, 3]), np.array([[1, 2], [3, 4]])
    sqO = np.array([[1, 'a'], [None, 4.0]], dtype=object)
    o3 = np.array([1, 'a', None], dtype=object)
    U = [
        # scalars
        ('None', None), ('True', True), ('0', 0), ('1', 1), ('1.0', 1.0), ('2', 2), ("'a'", 'a'), ("''", ''),
        ('nan#1', nan1), ('nan#2', nan2), ('np.float64(nan)', np.float64('nan')), ('np.float32(nan)', np.float32('nan')),
        ('np.int64(1)', np.int64(1)), ('np.float64(1)', np.float64(1)), ("np.str_('a')", np.str_('a')),
        ('date', datetime.date(2000, 1, 1)), ('datetime', dt1), ('datetime#2', datetime.datetime(2000, 1, 2, 3, 4, 5)),
        ('Timestamp', pd.Timestamp('2000-01-01')), ('np.datetime64', np.datetime64('2000-01-01')),
        # empty and small containers
        ('()', ()), ('[]', []), ('{}', {}), ('Dict()', Dict()), ('dictattr()', dictattr()),
        ('[1]', [1]), ('(1,)', (1,)), ('[1,2]', [1, 2]), ('(1,2)', (1, 2)), ('[None]', [None]), ("['a']", ['a']),
        ('[1,nan#1]', [1, nan1]), ('[1,nan#2]', [1, nan2]), ('(1,nan#1)', (1, nan1)),
        ("(1,[2,{'a':nan#1}])", (1, [2, {'a': nan1}])), ("(1,[2,{'a':1}])", (1, [2, {'a': 1}])), ("(1,(2,{'a':nan#1}))", (1, (2, {'a': nan1}))),
        ("{'a':1}", {'a': 1}), ("{'a':1.0}", {'a': 1.0}), ("{'b':1}", {'b': 1}), ("{'a':2}", {'a': 2}), ("{'a':nan#1}", {'a': nan1}),
        ('Dict(a=1)', Dict(a=1)), ('dictattr(a=1)', dictattr(a=1)),
        # same type, same length, DIFFERENT key sets, the missing key holding None / a falsy value (a lookup with a default would hide it)
        ("{'a':None}", {'a': None}), ("{'b':None}", {'b': None}), ("{'a':None,'c':1}", {'a': None, 'c': 1}), ("{'b':2,'c':1}", {'b': 2, 'c': 1}),
        ("{'b':None,'c':1}", {'b': None, 'c': 1}), ("{'a':0}", {'a': 0}), ("{'b':0}", {'b': 0}), ("{'a':[]}", {'a': []}), ("{'b':[]}", {'b': []}),
        ("[{'a':None}]", [{'a': None}]), ("[{'b':None}]", [{'b': None}]),
        ("{'a':[1,2]}", {'a': [1, 2]}), ("{'a':(1,2)}", {'a': (1, 2)}), ("{'a':[1,2],'b':[3]}", {'a': [1, 2], 'b': [3]}),
        ("{'a':[1,2],'b':(3,)}", {'a': [1, 2], 'b': (3,)}),
        # arrays
        ('arr[]', np.array([])), ('arr[1,2]i', np.array([1, 2])), ('arr[1.,2.]', np.array([1., 2.])), ('arr[1.,nan]', np.array([1., np.nan])),
        ('arr[[1,2]]', np.array([[1, 2]])), ('arr[[1],[2]]', np.array([[1], [2]])), ('arr[[1,2],[3,4]]', sq),
        ('arr[[1,2,3],[4,5,6]]', np.array([[1, 2, 3], [4, 5, 6]])), ('arr0d(1)', np.array(1)), ("arr['a','b']", np.array(['a', 'b'])),
        ('arr[1.,3.]', np.array([1., 3.])), ('arr[1,1]i', np.array([1, 1])), ('arr[[1],[1]]', np.array([[1], [1]])),      # broadcast to all-equal
        # pandas on a DatetimeIndex
        ('S[1.,2.]@A', s_A), ('S[1,2]i@A', pd.Series([1, 2], A)), ('S[1.,2.]@B', pd.Series([1., 2.], B)), ('S[1.,nan]@A', pd.Series([1., np.nan], A)),
        ('S[1.,3.]@A', pd.Series([1., 3.], A)), ('S[]', pd.Series([], index=E0, dtype=float)), ('S[1.,2.,3.]', pd.Series([1., 2., 3.], _idx(0, 1, 2))),
        ('DF{a:[1.,2.]}@A', pd.DataFrame({'a': [1., 2.]}, index=A)), ('DF{b:[1.,2.]}@A', pd.DataFrame({'b': [1., 2.]}, index=A)),
        ('DF{a:[1.,2.]}@B', pd.DataFrame({'a': [1., 2.]}, index=B)), ('DF{a:[1.,nan]}@A', pd.DataFrame({'a': [1., np.nan]}, index=A)),
        ('DF{a:[1,2],b:[3,4]}@A', pd.DataFrame({'a': [1., 2.], 'b': [3., 4.]}, index=A)), ('DF[]', pd.DataFrame(index=E0)),
        # default integer labels produced by slicing: equal labels and cells, different RangeIndex parameters, and the explicit-label twin
        ('DF5[::2]', pd.DataFrame({'a': [1., 9., 2., 9., 3.]}).iloc[::2]), ('DF6[::2]', pd.DataFrame({'a': [1., 9., 2., 9., 3., 9.]}).iloc[::2]),
        ('DF@[0,2,4]', pd.DataFrame({'a': [1., 2., 3.]}, index=[0, 2, 4])), ('S5[::2]', pd.Series([1., 9., 2., 9., 3.]).iloc[::2]),
        ('S6[::2]', pd.Series([1., 9., 2., 9., 3., 9.]).iloc[::2]), ('DF[0:0]', pd.DataFrame({'a': [1., 2., 3.]}).iloc[0:0]), ('DF[2:2]', pd.DataFrame({'a': [1., 2., 3.]}).iloc[2:2]),
        # a None cell is not a NaN cell, inside arrays and pandas objects as anywhere else
        ('arr[1,None]o', np.array([1, None], dtype=object)), ('arr[1,nan]o', np.array([1, float('nan')], dtype=object)),
        ('S[1,None]o@A', pd.Series([1, None], A, dtype=object)), ('S[1,nan]o@A', pd.Series([1, float('nan')], A, dtype=object)),
        ('DF{a:[1,None]}o@A', pd.DataFrame({'a': pd.Series([1, None], A, dtype=object)})), ('DF{a:[1,nan]}o@A', pd.DataFrame({'a': pd.Series([1, float('nan')], A, dtype=object)})),
        # frames with a ZERO dimension but different labels on the other axis: same shape, no cells to compare, still unequal
        ('DF0x{a,b}', pd.DataFrame({'a': [], 'b': []}, index=E0, dtype=float)), ('DF0x{a,c}', pd.DataFrame({'a': [], 'c': []}, index=E0, dtype=float)),
        ('DF{}@A', pd.DataFrame(index=A)), ('DF{}@B', pd.DataFrame(index=B)),
        # overlapping VIEWS of one buffer: same shape, same memory, different cells
        # empty arrays of different shapes; an object array whose cell is a one-element array (a container, not the number in it)
        ('arr(0,2)q', np.zeros((0, 2))), ('arr(2,0)q', np.zeros((2, 0))), ('arr(0,0)', np.zeros((0, 0))), ('arrO[1,arr[2]]', _objarr([1, np.array([2])])),
        ('arrO[1,2]', _objarr([1, 2])), ('[1,arr[2]]', [1, np.array([2])]),
        # same-content instances of SUBCLASSES of tuple / list (a namedtuple, a user list class): a different container type
        ('Point(1,2)', _Point(1, 2)), ('MyList[1,2]', _MyList([1, 2])), ('[Point(1,2)]', [_Point(1, 2)]), ("{'a':Point(1,2)}", {'a': _Point(1, 2)}),
        # int arrays beyond the float mantissa against the float array they round to
        ('arr[2**53,1]i', np.array([2 ** 53, 1])), ('arr[2**53+1,1]i', np.array([2 ** 53 + 1, 1])), ('arr[2.**53,1.]', np.array([2.0 ** 53, 1.0])),
        ('buf[:2]', buf[:2]), ('buf[1:]', buf[1:]), ('buf[::-1][1:]', buf[::-1][1:]), ('sq.T', sq.T), ('[buf[:2]]', [buf[:2]]), ('[buf[1:]]', [buf[1:]]),
        # low-precision numpy floats holding a non-dyadic value next to the Python float they were made from (numpy compares at the narrow width, both ways round)
        ('np.float32(0.1)', np.float32(0.1)), ('0.1', 0.1), ('[np.float32(0.1)]', [np.float32(0.1)]), ('[0.1]', [0.1]), ('np.float16(0.3)', np.float16(0.3)), ('0.3', 0.3),
        # frames in which one column LABEL occurs twice (columns are positions): equal copies, and a copy differing in the second of the two
        ('DFaa[[1,2]]', pd.DataFrame([[1., 2.]], columns=['a', 'a'], index=A[:1])), ('DFaa[[1,2]]#2', pd.DataFrame([[1., 2.]], columns=['a', 'a'], index=A[:1])),
        ('DFaa[[1,3]]', pd.DataFrame([[1., 3.]], columns=['a', 'a'], index=A[:1])), ('[DFaa[[1,2]]]', [pd.DataFrame([[1., 2.]], columns=['a', 'a'], index=A[:1])]),
        # OBJECT arrays with one shape and different memory layouts: cells are paired by index, not by where they sit in memory
        ('sqO', sqO), ('sqO.T', sqO.T), ('sqO F-order', np.asfortranarray(sqO)), ('sqO.T copy', sqO.T.copy()), ('o3[::-1]', o3[::-1]), ('o3', o3), ('o3 reversed copy', o3[::-1].copy()),
    ]
    if tier == 'quick':
        return U
    U += [
        # more scalars
        ('False', False), ('0.0', 0.0), ('1.5', 1.5), ("'b'", 'b'), ("'ab'", 'ab'), ('inf', float('inf')), ('np.float32(1)', np.float32(1)),
        ('np.bool_(True)', np.bool_(True)), ('np.float64(2)', np.float64(2)), ('Timestamp#2', pd.Timestamp('2000-01-02 03:04:05')),
        ('np.datetime64ns', np.datetime64('2000-01-01T00:00:00.000000000')), ('nan#3', nan3),
        # deeper nestings
        ('[[]]', [[]]), ('[()]', [()]), ('([],)', ([],)), ('[{}]', [{}]), ('[Dict()]', [Dict()]),
        ('[1,[2,[3,nan#1]]]', [1, [2, [3, nan1]]]), ('[1,[2,[3,nan#2]]]', [1, [2, [3, nan2]]]), ('[1,[2,(3,nan#1)]]', [1, [2, (3, nan1)]]),
        ('[1,[2,[3,4]]]', [1, [2, [3, 4]]]), ('[1,[2,[3]]]', [1, [2, [3]]]),
        ("{'a':{'b':{'c':nan#1}}}", {'a': {'b': {'c': nan1}}}), ("{'a':{'b':Dict(c=nan#1)}}", {'a': {'b': Dict(c=nan1)}}),
        ("{'a':{'b':{'c':1}}}", {'a': {'b': {'c': 1}}}), ("{'a':{'b':{'d':nan#1}}}", {'a': {'b': {'d': nan1}}}),
        ("[{'a':1}]", [{'a': 1}]), ('[Dict(a=1)]', [Dict(a=1)]), ('[1,2,3]', [1, 2, 3]), ('[2,1]', [2, 1]),
        ("{'a':1,'b':2}", {'a': 1, 'b': 2}), ("{'b':2,'a':1}", {'b': 2, 'a': 1}), ('Dict(a=1,b=2)', Dict(a=1, b=2)), ("{'a':1,'b':3}", {'a': 1, 'b': 3}),
        ('[nan#1,nan#1]', [nan1, nan1]), ('[nan#1,nan#2]', [nan1, nan2]), ('[np.float64(nan)]', [np.float64('nan')]), ('[np.float32(nan)]', [np.float32('nan')]),
        ('(nan#1,)', (nan1,)), ('[nan#3]', [nan3]), ("[None,'a',1.0]", [None, 'a', 1.0]), ('[True]', [True]), ('[1.0]', [1.0]), ("[1,'a']", [1, 'a']),
        ('[datetime]', [dt1]), ('[date]', [datetime.date(2000, 1, 1)]), ('[Timestamp]', [pd.Timestamp('2000-01-01')]),
        # containers of arrays / pandas
        ('[arr[1,2]i]', [np.array([1, 2])]), ('(arr[1,2]i,)', (np.array([1, 2]),)), ('[arr[1.,nan]]', [np.array([1., np.nan])]), ('[arr[2,1]]', [np.array([2, 1])]),
        ("{'a':arr[1,2]i}", {'a': np.array([1, 2])}), ("{'a':S[1.,2.]@A}", {'a': pd.Series([1., 2.], A)}), ("{'a':S[1.,2.]@B}", {'a': pd.Series([1., 2.], B)}),
        ('[S[1.,2.]@A]', [pd.Series([1., 2.], A)]), ('[S[1.,nan]@A]', [pd.Series([1., np.nan], A)]), ('[DF{a:[1.,2.]}@A]', [pd.DataFrame({'a': [1., 2.]}, index=A)]),
        ('[arr[[1,2]]]', [np.array([[1, 2]])]),
        # more dtypes and shapes
        ('arr[1,2]i32', np.array([1, 2], dtype='int32')), ('arr[True,False]', np.array([True, False])), ('arr[1,0]i', np.array([1, 0])),
        ("arrO[1,nan#1,'a']", _objarr([1, nan1, 'a'])), ("arrO[1,nan#2,'a']", _objarr([1, nan2, 'a'])), ("arrO[1,None,'a']", _objarr([1, None, 'a'])),
        ('arrO[[1,2],2]', _objarr([[1, 2], 2])), ('arrO[(1,2),2]', _objarr([(1, 2), 2])),
        ('arr_dt64', np.array(['2000-01-03', '2000-01-04'], dtype='datetime64[D]')), ('arr(0,2)', np.zeros((0, 2))), ('arr(2,0)', np.zeros((2, 0))),
        ('arr[2,1]i', np.array([2, 1])), ('arr[[[1,2]]]', np.array([[[1, 2]]])), ('arr[1.,2.,3.]', np.array([1., 2., 3.])), ('arr0d(nan)', np.array(np.nan)),
        ('arr[nan,nan]', np.array([np.nan, np.nan])), ("arr['a','c']", np.array(['a', 'c'])), ('arr[[1.,2.],[3.,nan]]', np.array([[1., 2.], [3., np.nan]])),
        # more pandas
        ('S[1.,1.]@A', pd.Series([1., 1.], A)), ('S[2.,1.]@A', pd.Series([2., 1.], A)), ('S[nan,nan]@A', pd.Series([np.nan, np.nan], A)),
        ('S[1.]@A0', pd.Series([1.], _idx(0))), ('S[]i', pd.Series([], index=E0, dtype=int)),
        ('DF{b:[3,4],a:[1,2]}@A', pd.DataFrame({'b': [3., 4.], 'a': [1., 2.]}, index=A)), ('DF{a:[3,4],b:[1,2]}@A', pd.DataFrame({'a': [3., 4.], 'b': [1., 2.]}, index=A)),
        ('DF{a:[1,2],b:[3,nan]}@A', pd.DataFrame({'a': [1., 2.], 'b': [3., np.nan]}, index=A)), ('DF{a:[1,2],b:[3,4]}i@A', pd.DataFrame({'a': [1, 2], 'b': [3, 4]}, index=A)),
        ('DF{a:[]}', pd.DataFrame({'a': []}, index=E0, dtype=float)), ('DF{}@A#2', pd.DataFrame(index=A)),
        ('DF{a:[1.,2.,3.]}', pd.DataFrame({'a': [1., 2., 3.]}, index=_idx(0, 1, 2))), ('DF{a:[1,2],b:[3,4]}@B', pd.DataFrame({'a': [1., 2.], 'b': [3., 4.]}, index=B)),
    ]
    return U


_Point = __import__('collections').namedtuple('_Point', 'x y')


class _MyList(list):
    pass


def _objarr(xs):
    a = np.empty(len(xs), dtype=object)
    for i, v in enumerate(xs):
        a[i] = v
    return a


def fresh_copy(x):
    """structural copy: same classes and values at every depth, every float (so every NaN) a different object"""
    if isinstance(x, (pd.Series, pd.DataFrame)):
        return x.copy()
    if isinstance(x, np.ndarray):
        if x.dtype == object:
            res = np.empty(x.shape, dtype=object)
            for ix in np.ndindex(x.shape):
                res[ix] = fresh_copy(x[ix])
            return res
        return x.copy()
    if isinstance(x, np.generic):
        return type(x)(x)
    if isinstance(x, dict):
        return type(x)({k: fresh_copy(v) for k, v in x.items()})
    if isinstance(x, tuple) and hasattr(x, '_fields'):
        return type(x)(*[fresh_copy(v) for v in x])          # a namedtuple takes its fields one by one
    if isinstance(x, (list, tuple)):
        return type(x)(fresh_copy(v) for v in x)
    if type(x) is float:
        return float('nan') if x != x else float.fromhex(x.hex())
    if isinstance(x, pd.Timestamp):
        return pd.Timestamp(x.isoformat())
    if isinstance(x, (datetime.datetime, datetime.date)):
        return x.replace()
    return x           # None, bool, int, str: immutable, identity carries no information


# ------------------------------------------------------------------------------------------------ reference model

_PLAIN_SCALARS = (type(None), bool, int, float, str, datetime.datetime, datetime.date)


def _isnan(v):
    return bool(isinstance(v, (float, np.floating)) and v != v)


def kind(v):
    """the container kind the statement is strict about"""
    if isinstance(v, pd.DataFrame):
        return 'DataFrame'
    if isinstance(v, pd.Series):
        return 'Series'
    if isinstance(v, np.ndarray):
        return 'ndarray'
    if isinstance(v, (dict, list, tuple)):
        return type(v).__name__          # dict / Dict / dictattr / list / tuple
    return 'scalar'


def _all_of(results):
    """conjunction of (verdict, why) with verdict in {True, False, None = unspecified}"""
    unknown = False
    for v, why in results:
        assert v is None or type(v) is bool, v
        if v is False:
            return False, why
        if v is None:
            unknown = True
    return (None, 'unspecified') if unknown else (True, 'all')


def _cell(a, b):
    """cells of arrays / pandas: NaN-aware =="""
    if kind(a) != 'scalar' or kind(b) != 'scalar':       # object arrays holding containers
        return model(a, b)
    na, nb = _isnan(a), _isnan(b)
    if na or nb:
        return (na and nb), 'nan'
    # cells are compared as the VALUES they hold (exactly: the int 2**53+1 is not the float 2.0**53), not after numpy's promotion to a common dtype
    if isinstance(a, (np.integer, np.floating, np.bool_)):
        a = a.item()
    if isinstance(b, (np.integer, np.floating, np.bool_)):
        b = b.item()
    try:
        return bool(a == b), 'cell'
    except Exception:
        return None, 'unspecified'


def _labels(a, b):
    a, b = list(a), list(b)
    return len(a) == len(b) and all(bool(i == j) for i, j in zip(a, b))


def model(x, y):
    """(expected eq(x, y) or None where the statement is silent, why)"""
    kx, ky = kind(x), kind(y)
    if kx != ky:
        return False, 'type'
    if kx == 'scalar':
        nx, ny = _isnan(x), _isnan(y)
        if nx or ny:
            return (nx and ny), 'nan'
        if type(x) in _PLAIN_SCALARS and type(y) in _PLAIN_SCALARS:
            return bool(x == y), 'plain'
        return None, 'unspecified'
    if isinstance(x, (list, tuple)):                  # incl. subclasses (a namedtuple, a user list): kx == ky says they are the SAME class
        if len(x) != len(y):
            return False, 'struct'
        return _all_of(model(a, b) for a, b in zip(x, y))
    if kx == 'ndarray':
        if x.shape != y.shape:
            return False, 'array'
        v, why = _all_of(_cell(a, b) for a, b in zip(x.flat, y.flat))
        return v, ('array' if why in ('cell', 'nan', 'all') else why)
    if kx in ('Series', 'DataFrame'):
        if not _labels(x.index, y.index):
            return False, 'pandas'
        if kx == 'DataFrame' and not _labels(x.columns, y.columns):
            return False, 'pandas'
        v, why = _all_of(_cell(a, b) for a, b in zip(x.values.flat, y.values.flat))
        return v, 'pandas'
    # dict kinds
    if set(x.keys()) != set(y.keys()):
        return False, 'struct'
    return _all_of(model(x[k], y[k]) for k in x)


def _leaves(v):
    k = kind(v)
    if k == 'scalar':
        yield v
    elif isinstance(v, (list, tuple)):
        for i in v:
            yield from _leaves(i)
    elif k == 'ndarray':
        if v.dtype == object:
            for i in v.flat:
                yield from _leaves(i)
        elif v.dtype.kind == 'M':
            yield np.zeros((), dtype=v.dtype)[()]            # a datetime64 scalar of the array's unit
        elif v.dtype.kind == 'f' and v.size and bool(np.isnan(v).any()):
            yield float('nan')
    elif k in ('Series', 'DataFrame'):
        if v.size and bool(np.isnan(np.asarray(v.values, dtype=float)).any()):
            yield float('nan')
    else:
        for i in v.values():
            yield from _leaves(i)


def _date_group(l):
    """bit of the date group a leaf belongs to: 1 = day resolution (plain datetime.date, np.datetime64 of unit Y/M/W/D),
    2 = datetime / pd.Timestamp, 4 = np.datetime64 of a clock unit (h ... ns); 0 = not a date"""
    if isinstance(l, np.datetime64):
        return 1 if np.datetime_data(l.dtype)[0] in ('Y', 'M', 'W', 'D') else 4
    if isinstance(l, datetime.datetime):
        return 2
    return 1 if type(l) is datetime.date else 0


_MIXED = [bin(m).count('1') >= 2 for m in range(8)]        # a mask spanning two or three date groups


def _is_plain(v):
    """NaN-free value made of None / bool / int / float / str / datetime / date and lists, tuples, dicts of them"""
    k = kind(v)
    if k == 'scalar':
        return type(v) in _PLAIN_SCALARS and not _isnan(v)
    if isinstance(v, (list, tuple)):
        return type(v) in (list, tuple) and all(_is_plain(i) for i in v)
    if k in ('ndarray', 'Series', 'DataFrame'):
        return False
    return all(isinstance(key, str) and _is_plain(i) for key, i in v.items())


def erased_eq(x, y):
    """equality that ignores the container class (list ~ tuple ~ ndarray ~ Series values, dict ~ Dict ~ dictattr, 0-d array ~ scalar):
    used only to label pairs that differ by nothing but a container type"""
    def norm(v):
        k = kind(v)
        if k == 'ndarray':
            return v.item() if v.ndim == 0 else list(v)
        if k == 'Series':
            return list(v.values)
        if k == 'DataFrame':
            return [list(r) for r in v.values]
        if isinstance(v, (list, tuple)):
            return list(v)
        if k != 'scalar':
            return dict(v)
        return v
    x, y = norm(x), norm(y)
    if isinstance(x, list) != isinstance(y, list) or isinstance(x, dict) != isinstance(y, dict):
        return False
    if isinstance(x, list):
        return len(x) == len(y) and all(erased_eq(a, b) for a, b in zip(x, y))
    if isinstance(x, dict):
        return set(x) == set(y) and all(erased_eq(x[k], y[k]) for k in x)
    v, _ = _cell(x, y)
    return v is True


# ------------------------------------------------------------------------------------------------ table

_TABLE = {}


class _Tab(object):
    pass


def _table(tier):
    """everything that is computed once per process: the extended universe, eq over all ordered pairs, the model"""
    if tier not in _TABLE:
        from pyg_base import eq
        U = universe(tier)
        n0 = len(U)
        names = [n for n, _ in U]
        assert len(set(names)) == n0, 'universe names must be unique'
        E = [v for _, v in U] + [fresh_copy(v) for _, v in U]
        names = names + ['copy(%s)' % n for n in names]
        n = len(E)
        T = [[None] * n for _ in range(n)]
        for i in range(n):
            x = E[i]
            row = T[i]
            for j in range(n):
                try:
                    row[j] = eq(x, E[j])
                except Exception as e:
                    row[j] = ('raise', '%s: %s' % (type(e).__name__, e))
        t = _Tab()
        t.n0, t.n, t.E, t.names, t.T = n0, n, E, names, T
        t.ok = [[isinstance(r, (bool, np.bool_)) for r in row] for row in T]         # a usable boolean answer
        t.B = [[bool(r) if ok else False for r, ok in zip(row, okrow)] for row, okrow in zip(T, t.ok)]
        t.kind = [kind(v) for v in E]
        leaves = [list(_leaves(v)) for v in E]
        t.has_nan = [any(_isnan(l) for l in lv) for lv in leaves]
        # the two groups whose mixture makes == itself intransitive
        t.dg = []
        for lv in leaves:
            m = 0
            for l in lv:
                m |= _date_group(l)
            t.dg.append(m)
        t.plain = [_is_plain(v) for v in E]
        t.M = [[model(E[i], E[j]) for j in range(n)] for i in range(n)]
        # self-check of the reference model against the statement's own yardstick: on NaN-free plain values with identical
        # container types it must be == (a disagreement is a bug in this file, reported as harness-exception)
        for i in range(n):
            if not t.plain[i]:
                continue
            for j in range(n):
                if t.plain[j]:
                    v, why = t.M[i][j]
                    assert v is not None, 'model silent on plain values %s, %s' % (names[i], names[j])
                    assert why == 'type' or v == bool(E[i] == E[j]), 'model disagrees with == on %s, %s' % (names[i], names[j])
        _TABLE[tier] = t
    return _TABLE[tier]


_KIND_OF = {'type': 'eq-type-lax', 'plain': 'eq-disagrees-with-==', 'nan': 'eq-nan', 'array': 'eq-array-model', 'pandas': 'eq-pandas-model',
            'struct': 'eq-container-model', 'cell': 'eq-array-model', 'all': 'eq-container-model'}


def check_laws(case):
    out = Out()
    t = _table(case['tier'])
    e = case['e']
    n, n0, E, names, T, B, ok = t.n, t.n0, t.E, t.names, t.T, t.B, t.ok
    nx, x = names[e], E[e]
    if nx != case['name']:
        raise ValueError('case %r does not match the universe of this tree (%r)' % (case, nx))
    twin = e + n0 if e < n0 else e - n0
    for j in range(n):
        ny, y = names[j], E[j]
        out.sub()
        out.call()
        r = T[e][j]
        if isinstance(r, tuple):
            out.viol('eq-raises', 'eq(%s, %s) raised %s  [x = %s, y = %s]; expected a boolean' % (nx, ny, r[1], show(x, 120), show(y, 120)), x=nx, y=ny)
            continue
        if not ok[e][j]:
            out.viol('eq-not-bool', 'eq(%s, %s) returned %s of type %s; expected bool or np.bool_' % (nx, ny, show(r, 120), type(r).__name__), x=nx, y=ny)
            continue
        r = B[e][j]
        if j == e or j == twin:
            if not r:
                out.viol('eq-not-reflexive', 'eq(%s, %s) = False for a value and %s  [x = %s]; expected True' % (
                    nx, ny, 'itself' if j == e else 'its structural copy with fresh NaN objects', show(x, 200)), x=nx, y=ny)
            out.cls('identical' if j == e else ('nan-copy' if t.has_nan[e] else 'copy'))
            if j == twin and t.has_nan[e]:
                out.nontrivial('p%d' % j)
        if ok[j][e] and B[j][e] != r:
            out.viol('eq-asymmetric', 'eq(%s, %s) = %r but eq(%s, %s) = %r  [x = %s, y = %s]' % (nx, ny, r, ny, nx, B[j][e], show(x, 120), show(y, 120)),
                     x=min(nx, ny), y=max(nx, ny))
        exp, why = t.M[e][j]
        if exp is not None and exp != r:
            k = _KIND_OF[why]
            if t.plain[e] and t.plain[j] and why != 'type':
                k = 'eq-disagrees-with-=='
            elif exp and (t.has_nan[e] or t.has_nan[j]) and why not in ('array', 'pandas'):
                k = 'eq-nan'
            out.viol(k, 'eq(%s, %s) = %r, expected %r (%s)  [x = %s, y = %s]' % (nx, ny, r, exp, _EXPLAIN[why], show(x, 160), show(y, 160)), x=nx, y=ny)
        if j != e and j != twin:
            if r:
                out.cls('equal')
                out.nontrivial('p%d' % j)
            elif why == 'type' and erased_eq(x, y):
                out.cls('type-strict')
                out.nontrivial('p%d' % j)
            else:
                out.cls('unequal:' + why)
    # transitivity over all triples (e, j, k) by table lookup
    row = B[e]
    dg = t.dg
    for j in range(n):
        if not ok[e][j]:
            continue
        m = dg[e] | dg[j]
        if _MIXED[m]:                                  # every triple through (e, j) mixes two date groups
            out.cls('triple-excluded')
            continue
        if not row[j]:                                 # eq(x,y) False: the implication holds for every (non-excluded) z
            out.sub(sum(1 for k in range(n) if not _MIXED[m | dg[k]]))
            continue
        rj, okj = B[j], ok[j]
        for k in range(n):
            if _MIXED[m | dg[k]]:
                continue
            out.sub()
            if rj[k] and okj[k] and ok[e][k] and not row[k]:
                out.viol('eq-intransitive', 'eq(%s, %s) and eq(%s, %s) but eq(%s, %s) = False  [x = %s, y = %s, z = %s]' % (
                    nx, names[j], names[j], names[k], nx, names[k], show(x, 100), show(E[j], 100), show(E[k], 100)), x=nx, y=names[j], z=names[k])
            if rj[k] and len({e % n0, j % n0, k % n0}) == 3:
                out.cls('chain-of-3-entries')
    return out


_EXPLAIN = {
    'type': 'the container types differ at a depth reached by both',
    'plain': 'NaN-free plain values: must agree with ==',
    'nan': 'NaN equals NaN and nothing else',
    'array': 'arrays are equal iff same shape and all cells equal, NaN-aware',
    'pandas': 'pandas objects are equal iff same class, index labels, column labels and all cells equal, NaN-aware',
    'struct': 'lengths / key sets differ',
    'cell': 'cells compared with ==',
    'all': 'same container types at every depth and all leaves equal (NaN equals NaN)',
}


# ------------------------------------------------------------------------------------------------ in_

def sequences(t):
    """closed menu of sequences drawn from E: (name, constructor, indices)"""
    n = t.n
    scal = [j for j in range(n) if t.kind[j] == 'scalar']
    cont = [j for j in range(n) if t.kind[j] in ('list', 'tuple', 'dict', 'Dict', 'dictattr')]
    arrs = [j for j in range(n) if t.kind[j] in ('ndarray', 'Series', 'DataFrame')]
    return [
        ('[]', list, []), ('()', tuple, []), ('[None]', list, [0]), ('whole universe', list, list(range(n))), ('reversed universe', tuple, list(range(n))[::-1]),
        ('scalars', list, scal), ('containers', tuple, cont), ('arrays and pandas', list, arrs), ('originals only', list, list(range(t.n0))),
        ('copies only', list, list(range(t.n0, n))), ('every 3rd', list, list(range(0, n, 3))), ('every 3rd + 1', tuple, list(range(1, n, 3))),
        ('every 3rd + 2, as iterator', iter, list(range(2, n, 3))),
    ]


def check_in(case):
    from pyg_base import in_
    out = Out()
    t = _table(case['tier'])
    e = case['e']
    nx, x = t.names[e], t.E[e]
    if nx != case['name']:
        raise ValueError('case %r does not match the universe of this tree (%r)' % (case, nx))
    for sname, make, idx in sequences(t):
        out.sub()
        if not all(t.ok[e][j] for j in idx):
            out.cls('skipped: eq itself failed (reported by eq_laws)')
            continue
        exp = any(t.B[e][j] for j in idx)
        try:
            r = in_(x, make(t.E[j] for j in idx))
            out.call()
        except Exception as ex:
            out.viol('in_-raises', 'in_(%s, <%s>) raised %s: %s; expected %r' % (nx, sname, type(ex).__name__, ex, exp), x=nx, seq=sname)
            continue
        if not isinstance(r, (bool, np.bool_)) or bool(r) != exp:
            first = [t.names[j] for j in idx if t.B[e][j]][:1]
            out.viol('in_-wrong', 'in_(%s, <%s>) = %r, expected %r = any(eq(x, s) for s in seq)%s' % (
                nx, sname, r, exp, (' (eq(x, %s) is True)' % first[0]) if first else ''), x=nx, seq=sname)
        out.cls('in' if exp else 'not-in')
        if exp and e not in idx:
            out.nontrivial(sname)          # found through an equal but different entry
        elif not exp and idx:
            out.nontrivial(sname)
    return out


def suites(tier, seed):
    names = [n for n, _ in universe(tier)]
    names = names + ['copy(%s)' % n for n in names]
    n0, n = len(names) // 2, len(names)

    def gen():
        return ({'e': e, 'name': names[e], 'tier': tier} for e in range(n))
    return [
        Suite('eq_laws', gen, check_laws,
              rule='extended universe E = %d named values + their %d structural copies with fresh NaN objects; all %d^2 ordered pairs (no exception, boolean result, '
                   'reflexivity incl. copies, symmetry, reference model: type strictness at every depth, == on NaN-free plain values, shape/cells for arrays, '
                   'index/columns/cells for pandas, NaN equals NaN) and all %d^3 triples by table lookup (transitivity; triples mixing date/datetime64 with '
                   'datetime/Timestamp excluded); non-trivial = pairs of different entries that eq reports equal, or that differ by nothing but a container type, '
                   'or a value containing NaN against its copy' % (n0, n0, n, n),
              bounds=dict(universe=n0, with_copies=n)),
        Suite('in_membership', gen, check_in,
              rule='every x in E against 13 sequences drawn from E (empty, whole, reversed, scalars, containers, arrays+pandas, originals, copies, strides; '
                   'list / tuple / iterator): in_(x, seq) == any(eq(x, s) for s in seq) with eq taken from the pair table; non-trivial = membership through an '
                   'equal but different entry, or non-membership in a non-empty sequence',
              bounds=dict(universe=n0, with_copies=n, sequences=13)),
    ]
