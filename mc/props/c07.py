"""
C07 -- cmp is a total preorder over mixed types; sort / dictable.sort follow it stably (DESIGN.md section 4, C07).

E2 suites:
  cmp_laws      all ordered pairs and all triples of a ~50-value mixed universe (NaN objects of different identity,
                +-inf, bools, numpy scalars, dates, nested containers, empty containers)
  sort_lists    all lists of length <= N over 8 scalars (fresh NaN objects and the shared np.nan), all lists of <= 3
                2-tuples over a 5-value sub-domain
  table_sort    all tables <= 4 rows over a mixed key domain x every sort spelling
"""
import datetime
import functools
import itertools

import numpy as np

from mc.engine import Suite, Out
from mc.codec import show

PROPERTY = 'C07'
ASSUMPTIONS = [
    'the ordering BETWEEN types is whatever cmp says; the oracle never hard-codes it (only: result in {-1,0,1}, no exception, antisymmetry, '
    'transitivity of <= and of ==, 0 for numerically equal int/float, NaN above every finite number)',
    'bools take part in the cmp laws only (the statement excludes them from sort inputs); +-inf are sorted too since cmp orders them like native floats',
    'sort oracle: output is a permutation by identity whose adjacent elements satisfy cmp(a,b) <= 0, cmp having been checked by cmp_laws in the same run',
    'dictable.sort with explicit value orders: listed values are not NaN (dict lookup of a NaN cell is identity based)',
]

_DT1 = datetime.datetime(2000, 1, 1)
_DT2 = datetime.datetime(2001, 2, 3, 4, 5, 6)


def universe():
    """fresh objects on every call; the two empty dicts and the NaNs are distinct objects"""
    nan1, nan2 = float('nan'), float('nan')
    U = [
        ('None', None), ('True', True), ('False', False), ('0', 0), ('1', 1), ('-1', -1), ('1.0', 1.0), ('2.5', 2.5),
        ('nan#1', nan1), ('nan#2', nan2), ('np.nan64', np.float64('nan')), ('+inf', float('inf')), ('-inf', float('-inf')),
        ("''", ''), ("'a'", 'a'), ("'b'", 'b'), ('date', datetime.date(2000, 1, 1)), ('dt1', _DT1), ('dt2', _DT2),
        ('np.int64(1)', np.int64(1)), ('np.float64(2.5)', np.float64(2.5)), ('np.datetime64', np.datetime64('2000-01-01')),
        ('()', ()), ('(1,)', (1,)), ('(1,2)', (1, 2)), ('(2,1)', (2, 1)), ("('a',None)", ('a', None)), ('(nan#1,)', (nan1,)), ('(nan#2,)', (nan2,)),
        ('(1.0,)', (1.0,)), ('[]', []), ('[1]', [1]), ("[1,'a']", [1, 'a']), ('[None]', [None]),
        ('{}', {}), ('{}#2', {}), ("{'a':1}", {'a': 1}), ("{'a':1.0}", {'a': 1.0}), ("{'a':1,'b':None}", {'a': 1, 'b': None}), ("{'b':1}", {'b': 1}),
        ("{'a':nan}", {'a': nan2}), ('((1,),2)', ((1,), 2)), ('[(1,),{}]', [(1,), {}]), ("{'a':{'b':1}}", {'a': {'b': 1}}),
        ("{'a':1,'b':2}", {'a': 1, 'b': 2}), ("{'b':1,'a':2}", {'b': 1, 'a': 2}), ("{'b':2,'a':1}", {'b': 2, 'a': 1}), ("{'b':3,'a':0}", {'b': 3, 'a': 0}),
        ("({'b':1,'a':2},)", ({'b': 1, 'a': 2},)), ("({'a':1,'b':2},)", ({'a': 1, 'b': 2},)), ("[{'b':2,'a':1}]", [{'b': 2, 'a': 1}]), ("[{'a':2,'b':1}]", [{'a': 2, 'b': 1}]),
        ('[True]', [True]), ('[False]', [False]), ('[0]', [0]), ("[False,'x']", [False, 'x']), ("[True,'x']", [True, 'x']), ("[0,'x']", [0, 'x']), ("[1,'x']", [1, 'x']),
        ('(True,)', (True,)), ('(False,)', (False,)), ('(0,)', (0,)), ('[[True]]', [[True]]), ('[[1]]', [[1]]), ("[dt1,'x']", [_DT1, 'x']), ("{'a':True}", {'a': True}),
        ('np.float32(nan)', np.float32('nan')), ('np.float32(1.5)', np.float32(1.5)), ('np.float32(2.5)', np.float32(2.5)), ('np.float16(nan)', np.float16('nan')),
        ('(np.float32(nan),)', (np.float32('nan'),)), ('(np.float32(1.5),)', (np.float32(1.5),)), ('np.int32(1)', np.int32(1)),
        ('3', 3), ('2', 2), ("'ab'", 'ab'), ('(None,)', (None,)), ('[[]]', [[]]), ('timedelta', datetime.timedelta(1)),
        # ints beyond the float mantissa next to the float they both round to: the order must stay transitive whatever precision cmp works in
        ('2**64', 2 ** 64), ('-2**63-1', -2 ** 63 - 1), ('2**53', 2 ** 53), ('2**53+1', 2 ** 53 + 1), ('2.0**53', 2.0 ** 53), ('(2**53+1,)', (2 ** 53 + 1,)), ('(2.0**53,)', (2.0 ** 53,)),
        # dicts whose keys are equal under cmp without being the same dictionary key (NaN objects, a date and the datetime at its midnight, big ints)
        ('{nan#1:1}', {nan1: 1}), ('{nan#2:1}', {nan2: 1}), ('{nan#2:2}', {nan2: 2}), ('{date:1}', {datetime.date(2000, 1, 1): 1}), ('{dt1:1}', {_DT1: 1}),
        ('{2**53:1}', {2 ** 53: 1}), ('{2**53+1:1}', {2 ** 53 + 1: 1}), ('{1:0}', {1: 0}), ('{1.0:0}', {1.0: 0}),
    ]
    return U


_TABLE = {}


def _table():
    """cmp over all ordered pairs, computed once per process: (i,j) -> result or ('raise', text)"""
    if 'T' not in _TABLE:
        from pyg_base import cmp
        U = universe()
        T = {}
        for i, (_, x) in enumerate(U):
            for j, (_, y) in enumerate(U):
                try:
                    T[i, j] = cmp(x, y)
                except Exception as e:
                    T[i, j] = ('raise', '%s: %s' % (type(e).__name__, e))
        _TABLE['T'] = T
        _TABLE['U'] = U
    return _TABLE['U'], _TABLE['T']


def _finite_num(v):
    return isinstance(v, (int, float, np.integer, np.floating)) and not isinstance(v, (bool, np.bool_)) and v == v and abs(v) != float('inf')


def _isnan(v):
    return isinstance(v, (float, np.floating)) and v != v


def check_cmp(case):
    out = Out()
    U, T = _table()
    i = case['x']
    nx, x = U[i]
    n = len(U)
    for j in range(n):
        ny, y = U[j]
        out.sub()
        out.call()
        r = T[i, j]
        if isinstance(r, tuple):
            out.viol('cmp-raises', 'cmp(%s, %s) raised %s' % (nx, ny, r[1]), x=nx, y=ny)
            continue
        if r not in (-1, 0, 1) or isinstance(r, bool):
            out.viol('cmp-range', 'cmp(%s, %s) = %r' % (nx, ny, r), x=nx, y=ny)
            continue
        out.cls('cmp=%d' % r)
        r2 = T[j, i]
        if not isinstance(r2, tuple) and r2 != -r:
            out.viol('cmp-antisymmetry', 'cmp(%s, %s) = %r but cmp(%s, %s) = %r' % (nx, ny, r, ny, nx, r2), x=nx, y=ny)
        if i == j and r != 0:
            out.viol('cmp-reflexive', 'cmp(%s, %s) = %r' % (nx, nx, r), x=nx)
        if _finite_num(x) and _finite_num(y) and float(x) == float(y) and r != 0:
            out.viol('cmp-int-float', 'cmp(%s, %s) = %r for numerically equal values' % (nx, ny, r), x=nx, y=ny)
        if _finite_num(x) and _finite_num(y) and float(x) != float(y) and r != (-1 if float(x) < float(y) else 1):
            out.viol('cmp-numeric-order', 'cmp(%s, %s) = %r' % (nx, ny, r), x=nx, y=ny)
        if _isnan(x) and _finite_num(y) and r != 1:
            out.viol('cmp-nan-rank', 'cmp(%s, %s) = %r: NaN must rank above every finite number' % (nx, ny, r), x=nx, y=ny)
        if type(x) is type(y) and isinstance(x, str) and r != ((x > y) - (x < y)):
            out.viol('cmp-string-order', 'cmp(%s, %s) = %r' % (nx, ny, r), x=nx, y=ny)
        if r != 0:
            out.nontrivial('p%d' % j)
    # transitivity over all triples through the table
    for j in range(n):
        a = T[i, j]
        if isinstance(a, tuple):
            continue
        for k in range(n):
            b, c = T[j, k], T[i, k]
            if isinstance(b, tuple) or isinstance(c, tuple):
                continue
            out.sub()
            if a <= 0 and b <= 0 and not c <= 0:
                out.viol('cmp-transitivity', '%s <= %s <= %s but cmp(%s, %s) = %r' % (nx, U[j][0], U[k][0], nx, U[k][0], c), kind='le')
            if a == 0 and b == 0 and c != 0:
                out.viol('cmp-transitivity', '%s == %s == %s but cmp(%s, %s) = %r' % (nx, U[j][0], U[k][0], nx, U[k][0], c), kind='eq')
            if a == 0 and b != 0 and c != b:
                out.viol('cmp-transitivity', '%s == %s, cmp(%s,%s)=%r but cmp(%s,%s)=%r' % (nx, U[j][0], U[j][0], U[k][0], b, nx, U[k][0], c), kind='congruence')
    return out


# ------------------------------------------------------------------------------------------------ sort

S = ['None', '1', '2', '1.5', 'nan', "'a'", "'b'", 'dt', '+inf', '-inf', "'aa'", '2**64']   # names; objects are built per case ('aa' is longer than 'b' but sorts before it)


def _mk(name, shared_nan):
    if name == 'None':
        return None
    if name == '1':
        return 1
    if name == '2':
        return 2
    if name == '1.5':
        return 1.5
    if name == '1.0':
        return 1.0
    if name == 'nan':
        return np.nan if shared_nan else float('nan')
    if name == "'a'":
        return 'a'
    if name == "'b'":
        return 'b'
    if name == "'aa'":
        return 'aa'
    if name == '2**64':
        return 2 ** 64                     # an int beyond 64 bits is an int like any other
    if name == 'dt':
        return datetime.datetime(2000, 1, 1)
    if name == '+inf':
        return float('inf')
    if name == '-inf':
        return float('-inf')
    raise ValueError(name)


def gen_lists(maxlen):
    for n in range(maxlen + 1):
        for xs in itertools.product(range(len(S)), repeat=n):
            yield {'kind': 'scalars', 'xs': list(xs), 'shared_nan': False}
            if 4 in xs:
                yield {'kind': 'scalars', 'xs': list(xs), 'shared_nan': True}
    T5 = [0, 1, 4, 5, 3]          # None, 1, nan, 'a', 1.5
    tuples = list(itertools.product(T5, repeat=2))
    for n in range(1, 4):
        for ts in itertools.product(range(len(tuples)), repeat=n):
            yield {'kind': 'tuples', 'xs': [list(tuples[t]) for t in ts], 'shared_nan': False}


def _sorted_ok(out, res, xs, label, sig):
    from pyg_base import cmp
    if not isinstance(res, list):
        res = list(res)
    if sorted(map(id, res)) != sorted(map(id, xs)):
        out.viol('sort-not-permutation', '%s: %s -> %s' % (label, show(xs), show(res)), **sig)
        return False
    for a, b in zip(res, res[1:]):
        c = cmp(a, b)
        if c > 0:
            out.viol('sort-not-ordered', '%s: %s -> %s has %r before %r (cmp = %d)' % (label, show(xs), show(res), a, b, c), **sig)
            return False
    return True


def check_list(case):
    from pyg_base import sort, Cmp
    out = Out()
    sh = case['shared_nan']
    if case['kind'] == 'scalars':
        xs = [_mk(S[i], sh) for i in case['xs']]
        has_nan = 4 in case['xs']
        kinds = len(set('num' if S[i] in ('1', '2', '1.5', 'nan', '2**64') else S[i] for i in case['xs']))
    else:
        xs = [tuple(_mk(S[i], sh) for i in t) for t in case['xs']]
        has_nan = any(4 in t for t in case['xs'])
        kinds = 2
    snap = list(xs)
    out.sub()
    try:
        res = sort(xs)
        out.call()
    except Exception as e:
        out.viol('sort-raises', 'sort(%s) raised %s: %s' % (show(xs), type(e).__name__, e), kind=case['kind'], nan=has_nan)
        return out
    _sorted_ok(out, res, xs, 'sort', dict(kind=case['kind'], nan=has_nan))
    if len(xs) != len(snap) or any(a is not b for a, b in zip(xs, snap)):
        out.viol('sort-mutates-input', 'sort changed its argument %s -> %s' % (show(snap), show(xs)), kind=case['kind'])
    try:
        res2 = sorted(xs, key=Cmp)
        out.call()
        _sorted_ok(out, res2, xs, 'sorted(key=Cmp)', dict(kind=case['kind'], nan=has_nan, via='Cmp'))
    except Exception as e:
        out.viol('sort-raises', 'sorted(%s, key=Cmp) raised %s: %s' % (show(xs), type(e).__name__, e), kind=case['kind'], via='Cmp')
    if len(xs) > 1 and (has_nan or kinds > 1):
        out.nontrivial()
    out.cls('nan' if has_nan else ('mixed' if kinds > 1 else 'plain'))
    return out


# ------------------------------------------------------------------------------------------------ dictable.sort

KA = ['None', '1', '2', '1.5', 'nan', "'a'", 'dt', '1.0', '-inf']
KB3 = ['1', 'None', "'a'"]
KC3 = ['2', 'nan', '1']


def gen_tables(maxrows):
    for n in range(maxrows + 1):
        for xs in itertools.product(range(len(KA)), repeat=n):
            yield {'t': 'one', 'a': list(xs)}
    for n in range(1, min(maxrows, 3) + 1):
        for xs in itertools.product(range(9), repeat=n):
            yield {'t': 'two', 'ab': list(xs)}
    for n in range(3, min(maxrows, 4) + 1):
        for xs in itertools.product(range(5), repeat=n):
            if len(set(xs)) < n and len(set(xs)) > 1:
                yield {'t': 'obj', 'a': list(xs)}            # the SAME key object in several rows next to other objects that are cmp-equal to it


def _stable_order(keys):
    from pyg_base import cmp

    def c(i, j):
        r = cmp(keys[i], keys[j])
        return r if r else (i > j) - (i < j)
    return sorted(range(len(keys)), key=functools.cmp_to_key(c))


def _neg(a):
    return -a if isinstance(a, (int, float)) and a == a else a


def check_table(case):
    from pyg_base import dictable, cmp
    out = Out()
    if case['t'] == 'one':
        a = [_mk(KA[i], False) for i in case['a']]
        b = [(7 * i + 3) % 4 for i in range(len(a))]           # a second, numeric column with ties
    elif case['t'] == 'obj':
        objs = [float('nan'), float('nan'), 1.0, datetime.datetime(2000, 1, 1), datetime.date(2000, 1, 1)]      # two NaN objects; a datetime and the date at its midnight
        a = [objs[i] for i in case['a']]
        b = [0] * len(a)
    else:
        a = [_mk(KB3[i // 3], False) for i in case['ab']]
        b = [_mk(KC3[i % 3], False) for i in case['ab']]
    n = len(a)
    rid = list(range(n))

    def build():
        return dictable(a=list(a), b=list(b), id=list(rid))

    spellings = [
        ("sort('a')", lambda d: d.sort('a'), [(x,) for x in a]),
        ("sort('a','b')", lambda d: d.sort('a', 'b'), list(zip(a, b))),
        ("sort(['a','b'])", lambda d: d.sort(['a', 'b']), list(zip(a, b))),
        ("sort(['b','a'])", lambda d: d.sort(['b', 'a']), list(zip(b, a))),
        ("sort('b','a')", lambda d: d.sort('b', 'a'), list(zip(b, a))),
        ("sort(['a'])", lambda d: d.sort(['a']), [(x,) for x in a]),
        ("sort(lambda a: neg(a))", lambda d: d.sort(lambda a: _neg(a)), [(_neg(x),) for x in a]),
        ("sort(lambda a, b: [a, b])", lambda d: d.sort(lambda a, b: [a, b]), [([x, y],) for x, y in zip(a, b)]),
        ("sort(lambda a, b: (b, a))", lambda d: d.sort(lambda a, b: (b, a)), [((y, x),) for x, y in zip(a, b)]),
        ("sort()", lambda d: d.sort(), None),
        ("sort([])", lambda d: d.sort([]), None),
    ]
    # explicit value orders: listed values first in the listed order, unlisted last (stable)
    listed = [x for x in [2, 'a', None, 1] if True]
    orders = [[2, 'a'], ['a', None, 1], [1]]
    for order in orders:
        def rank(x, order=order):
            if x != x:
                return len(order)
            for r, v in enumerate(order):
                if (x is None and v is None) or (x is not None and v is not None and type(x) in (int, float) and type(v) in (int, float) and x == v) \
                        or (isinstance(x, str) and isinstance(v, str) and x == v):
                    return r
            return len(order)
        spellings.append(('sort(a=%r)' % (order,), lambda d, order=order: d.sort(a=list(order)), [(rank(x),) for x in a]))
        spellings.append(('sort(a=tuple%r)' % (tuple(order),), lambda d, order=order: d.sort(a=tuple(order)), [(rank(x),) for x in a]))
        if None not in order:
            spellings.append(('sort(a=np.array(%r, dtype=object))' % (order,), lambda d, order=order: d.sort(a=np.array(order, dtype=object)), [(rank(x),) for x in a]))
    spellings.append(('sort(b=[2,1], a=[1])', lambda d: d.sort(b=[2, 1], a=[1]),
                      [((0 if (type(y) in (int, float) and y == 2) else 1 if (type(y) in (int, float) and y == 1) else 2), (0 if (type(x) in (int, float) and x == 1) else 1))
                       for x, y in zip(a, b)]))        # the FIRST order given is the primary one, whatever the column order of the table
    spellings.append(('sort(a=[1], b=[2,1])', lambda d: d.sort(a=[1], b=[2, 1]),
                      [((0 if (type(x) in (int, float) and x == 1) else 1), (0 if (type(y) in (int, float) and y == 2) else 1 if (type(y) in (int, float) and y == 1) else 2))
                       for x, y in zip(a, b)]))

    # ---- further columns that are called like the constructor's own parameters ('columns', 'data'): sorting keeps them
    if n >= 1 and case['t'] == 'two':
        out.sub()
        try:
            dd = dictable({'a': list(a), 'columns': ['c%d' % i for i in rid], 'data': [(i, 'x') for i in rid], 'id': list(rid)})
            rs = dd.sort('a')
            out.call()
            exp_ids = _stable_order([(x,) for x in a])
            if set(rs.keys()) != {'a', 'columns', 'data', 'id'} or list(rs['id']) != exp_ids or list(rs['columns']) != ['c%d' % i for i in exp_ids] or list(rs['data']) != [(i, 'x') for i in exp_ids]:
                out.viol('table-sort-not-permutation', "sort('a') on a table with further columns called 'columns' and 'data' (a=%s): result columns %s ids %s" % (
                    show(a), list(rs.keys()), list(rs.get('id', []))), spelling='constructor-named-columns')
        except Exception as e:
            out.viol('table-sort-raises', "sort('a') on a table with columns called 'columns' / 'data' raised %s: %s" % (type(e).__name__, e), spelling='constructor-named-columns')
    # ---- a sorted table whose key column is then overwritten in place and sorted again: the second sort sees the table as it is now
    if n >= 2 and case['t'] != 'obj':
        out.sub()
        try:
            t1 = build().sort('a')
            newa = list(t1['a'])[::-1]
            t1['a'] = list(newa)
            ids1 = list(t1['id'])
            t2 = t1.sort('a')
            out.call(2)
            want2 = [ids1[i] for i in _stable_order([(x,) for x in newa])]
            if list(t2['id']) != want2:
                out.viol('table-sort-wrong-order', "d.sort('a'), then a overwritten with %s, then sort('a') again: ids %s, expected %s" % (show(newa), list(t2['id']), want2), spelling='sort-edit-sort')
        except Exception as e:
            out.viol('table-sort-raises', "sort('a') / overwrite a / sort('a') on a=%s raised %s: %s" % (show(a), type(e).__name__, e), spelling='sort-edit-sort')
    for name, f, keys in spellings:
        out.sub()
        d = build()
        snap = {k: list(v) for k, v in d.items()}
        try:
            res = f(d)
            out.call()
        except Exception as e:
            out.viol('table-sort-raises', '%s on a=%s b=%s raised %s: %s' % (name, show(a), show(b), type(e).__name__, e), spelling=name.split('(')[0] + '(' + name.split('(')[1][:12])
            continue
        expect = rid if keys is None else _stable_order(keys)
        try:
            got = list(res['id'])
            rows_ok = len(res) == n and set(res.keys()) == {'a', 'b', 'id'} and all(res['a'][p] is a[i] and res['b'][p] is b[i] for p, i in enumerate(got))
        except Exception as e:
            out.viol('table-sort-broken-result', '%s: %s: %s' % (name, type(e).__name__, e), spelling=name)
            continue
        if sorted(got) != rid or not rows_ok:
            out.viol('table-sort-not-permutation', '%s on a=%s b=%s returned ids %s' % (name, show(a), show(b), got), spelling=name)
            continue
        if got != expect:
            out.viol('table-sort-order', '%s on a=%s b=%s: expected row order %s (stable, by cmp), got %s' % (name, show(a), show(b), expect, got),
                     spelling=name, stable_only=sorted(got) == sorted(expect) and _same_keys(keys, got, expect))
        # idempotent
        try:
            again = f(res)
            out.call()
            if list(again['id']) != got:
                out.viol('table-sort-not-idempotent', '%s on a=%s b=%s: %s then %s' % (name, show(a), show(b), got, list(again['id'])), spelling=name)
        except Exception as e:
            out.viol('table-sort-raises', '%s applied twice raised %s: %s' % (name, type(e).__name__, e), spelling=name, twice=True)
        if set(d.keys()) != set(snap) or any(len(d[k]) != len(snap[k]) or any(x is not y for x, y in zip(d[k], snap[k])) for k in snap):
            out.viol('table-sort-mutates-operand', '%s changed the table it was called on' % name, spelling=name)
        if keys is not None and expect != rid:
            out.nontrivial(name)
            out.cls('reordered')
        else:
            out.cls('identity')
    return out


def _same_keys(keys, got, expect):
    from pyg_base import cmp
    if keys is None:
        return False
    return all(cmp(keys[g], keys[e]) == 0 for g, e in zip(got, expect))


def suites(tier, seed):
    nU = len(universe())
    maxlen = 4 if tier == 'quick' else 5
    maxrows = 3 if tier == 'quick' else 4
    return [
        Suite('cmp_laws', lambda: ({'x': i} for i in range(nU)), check_cmp,
              rule='all %d^2 ordered pairs (range, no exception, antisymmetry, reflexivity, int==float, NaN rank) and all %d^3 triples '
                   '(transitivity of <=, of ==, congruence) of the mixed universe; non-trivial = pairs with cmp != 0' % (nU, nU),
              bounds=dict(universe=nU)),
        Suite('sort_lists', lambda: gen_lists(maxlen), check_list,
              rule='all lists of length <= %d over %s (fresh NaN objects, and again with the shared np.nan) and all lists of <= 3 2-tuples over 5 values; '
                   'non-trivial = length > 1 with a NaN or two kinds of values' % (maxlen, S),
              bounds=dict(max_len=maxlen, scalars=len(S))),
        Suite('table_sort', lambda: gen_tables(maxrows), check_table,
              rule='all tables <= %d rows with key column a over %s (+ a numeric tie column), all tables <= 3 rows over a 3x3 two-column domain, '
                   'x 13 sort spellings (names, lists, callable, none, value orders); non-trivial = the expected order differs from the input order' % (maxrows, KA),
              bounds=dict(max_rows=maxrows, key_values=len(KA))),
    ]
