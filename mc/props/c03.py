"""
C03 -- alignment puts all timeseries on the prescribed common index, values intact (DESIGN.md section 4, C03).

E2: every tuple of index subsets of a short daily timeline x NaN patterns x container shapes x join policies
{ij, oj, lj, rj, explicit index, explicit timeseries} x fill methods {None, ffill, bfill}, for df_index, df_reindex,
df_sync and presync-decorated functions; all tuples of bare numpy arrays of length 0..4.
Oracle: dict-of-days alignment model with as-of fill (mc/tsmodel.py).
"""
import itertools

import numpy as np
import pandas as pd

from mc.engine import Suite, Out
from mc import tsmodel as tm

PROPERTY = 'C03'
ASSUMPTIONS = [
    'containers are lists and dicts (arbitrarily nested); tuples are not searched by df_index and are outside the statement',
    'indices are sorted, duplicate-free daily DatetimeIndex; `limit` is not used',
    'multi-column frames with a fill method carry whole-row NaN patterns (row-wise as-of versus per-value filling is ambiguous in the statement); a partly observed row is only '
    'used to assert that every cell holding an observation keeps it at every surviving timestamp (what the NaN cell becomes is not judged)',
    'bare numpy arrays are aligned among themselves only (mixing arrays with timeseries is not claimed)',
    'result dtype and column ORDER of frames are not checked',
]

METHODS = [None, 'ffill', 'bfill']


def _explicit_sets(T):
    return [('sub', [1, 2]), ('super', list(range(-1, T + 1))), ('shift', list(range(2, T + 2))), ('empty', [])]


# ------------------------------------------------------------------------------------------------ series pairs / triples

def gen_pairs(T, k, masks, quick=False):
    V = tm.series_variants(T, masks)
    for combo in itertools.product(range(len(V)), repeat=k):
        yield {'T': T, 'v': [V[i] for i in combo], 'quick': quick}


def _check_seq_result(out, res, models, days, method, label, sig, containers_like=None):
    """res: list of aligned Series for the model series in `models`"""
    for i, (r, ms) in enumerate(zip(res, models)):
        p = tm.series_problem(r, tm.align(ms, days, method), '%s member %d' % (label, i))
        if p:
            out.viol('wrong-alignment', p, **sig)
            return False
    return True


def check_series(case):
    from pyg_base import df_index, df_reindex, df_sync, presync
    out = Out()
    T = case['T']
    models = [tm.model_series(d, k) for k, d in enumerate(case['v'])]
    daysets = [set(m) for m in models]
    k = len(models)
    desc = 'series %s' % [[sorted(m), sorted(d for d in m if m[d] is None)] for m in models]

    def fresh():
        return [tm.build_series(m) for m in models]

    def shared():
        # series over the same days share ONE index object (as z = x * 2 or pd.Series(values, idx) built from one idx do)
        idx = {}
        res = []
        for m in models:
            s_ = tm.build_series(m)
            key = tuple(sorted(m))
            if key in idx:
                s_.index = idx[key]
            else:
                idx[key] = s_.index
            res.append(s_)
        return res

    hows = [('ij', None), ('oj', None), ('lj', None), ('rj', None), ('inner', None), ('outer', None)] + [('explicit', e) for e in _explicit_sets(T)]
    f2 = presync(lambda a, b: (a, b))
    f3 = presync(lambda a, b, c: (a, b, c))
    for how, ex in hows:
        days = tm.common_days(daysets, how if ex is None else 'explicit', ex[1] if ex else None)
        join = how if ex is None else pd.DatetimeIndex([tm.day(d) for d in ex[1]])
        jname = how if ex is None else 'index:' + ex[0]
        # ---- df_index
        if ex is None:
            out.sub()
            ss = fresh()
            try:
                idx = df_index(ss, how)
                out.call()
                if list(idx) != [tm.day(d) for d in days]:
                    out.viol('wrong-index', 'df_index(%s, %r) = %s expected days %s' % (desc, how, [tm.daynum(t) for t in idx], days), how=how, f='df_index')
            except Exception as e:
                out.viol('raised', 'df_index(%s, %r) raised %s: %s' % (desc, how, type(e).__name__, e), how=how, f='df_index')
        if ex is None and len(set(map(frozenset, daysets))) < k:
            out.sub()
            ss = shared()
            try:
                idx = df_index(ss, how)
                res = df_sync(ss, how)
                out.call(2)
                if list(idx) != [tm.day(d) for d in days]:
                    out.viol('wrong-index', 'df_index(%s with shared index objects, %r) = %s expected days %s' % (desc, how, [tm.daynum(t) for t in idx], days), how=how, f='df_index-shared')
                else:
                    _check_seq_result(out, res, models, days, None, 'df_sync(%s with shared index objects, %s)' % (desc, how), dict(f='df_sync-shared', how=how, k=k))
            except Exception as e:
                out.viol('raised', 'df_index/df_sync(%s with shared index objects, %r) raised %s: %s' % (desc, how, type(e).__name__, e), how=how, f='df_index-shared')
        for method in METHODS:
            sig = dict(how=jname, method=str(method), k=k)
            # ---- df_sync on a list
            out.sub()
            ss = fresh()
            snaps = [s.copy() for s in ss]
            try:
                res = df_sync(ss, join, method)
                out.call()
                if type(res) is not list or len(res) != k:
                    out.viol('container-changed', 'df_sync(list) returned %s' % type(res).__name__, f='df_sync', **sig)
                else:
                    _check_seq_result(out, res, models, days, method, 'df_sync(%s, %s, %s)' % (desc, jname, method), dict(f='df_sync', **sig))
                for s, sn in zip(ss, snaps):
                    if not s.equals(sn):
                        out.viol('operand-mutated', 'df_sync changed its input %s' % desc, f='df_sync', **sig)
            except Exception as e:
                out.viol('raised', 'df_sync(%s, %s, %s) raised %s: %s' % (desc, jname, method, type(e).__name__, e), f='df_sync', **sig)
            # ---- df_sync on a dict, df_reindex on a list (string / explicit index)
            out.sub()
            ss = fresh()
            try:
                res = df_sync({'k%d' % i: s for i, s in enumerate(ss)}, join, method)
                out.call()
                if type(res) is not dict or list(res.keys()) != ['k%d' % i for i in range(k)]:
                    out.viol('container-changed', 'df_sync(dict) returned %s with keys %s' % (type(res).__name__, list(getattr(res, 'keys', lambda: [])())), f='df_sync-dict', **sig)
                else:
                    _check_seq_result(out, list(res.values()), models, days, method, 'df_sync(dict %s, %s, %s)' % (desc, jname, method), dict(f='df_sync-dict', **sig))
            except Exception as e:
                out.viol('raised', 'df_sync(dict %s, %s, %s) raised %s: %s' % (desc, jname, method, type(e).__name__, e), f='df_sync-dict', **sig)
            out.sub()
            ss = fresh()
            try:
                res = df_reindex(ss, join, method=method)
                out.call()
                _check_seq_result(out, res, models, days, method, 'df_reindex(%s, %s, %s)' % (desc, jname, method), dict(f='df_reindex', **sig))
            except Exception as e:
                out.viol('raised', 'df_reindex(%s, %s, %s) raised %s: %s' % (desc, jname, method, type(e).__name__, e), f='df_reindex', **sig)
            # ---- presync-decorated function: decorator parameters, call-time parameters, keyword passing
            if ex is None and how in ('ij', 'oj', 'lj', 'rj'):
                f = f2 if k == 2 else f3
                long = dict(ij='inner', oj='outer', lj='left', rj='right')[how]
                variants = [('ctor', lambda ss: type(f)(f.function, index=long, method=method)(*ss)),
                            ('call', lambda ss: f(*ss, join=how, method=method)),
                            ('kw', lambda ss: type(f)(f.function, index=long, method=method)(ss[0], **dict(zip('bc', ss[1:])))),
                            ('call-kw', lambda ss: f(ss[0], join=how, method=method, **dict(zip('bc', ss[1:])))),
                            ('call-allkw', lambda ss: f(join=how, method=method, **dict(zip('abc', ss)))),
                            # keywords given in the REVERSE of the signature's order: first / last follow the caller's order (the results come back by parameter)
                            ('call-allkw-reversed', lambda ss: f(join=how, method=method, **dict(list(zip('abc', ss))[::-1])))]
                prop = ('prop', lambda ss: (getattr(f, how).ffill if method == 'ffill' else getattr(f, how).bfill if method == 'bfill' else getattr(f, how))(*ss))
                if method == 'bfill' and case.get('quick'):
                    variants = variants[1:2] + variants[3:4]          # quick tier: bfill through the call-time spellings and the property chain (ffill / None run all of them)
                variants.append(prop)                                 # the policy property chained with the fill property: f.oj.ffill / f.rj.bfill
                for vname, g in variants:
                    out.sub()
                    ss = fresh()
                    try:
                        res = g(ss)
                        out.call()
                        if not isinstance(res, tuple) or len(res) != k:
                            out.viol('container-changed', 'presync %s returned %r' % (vname, type(res).__name__), f='presync-' + vname, **sig)
                        else:
                            vdays = tm.common_days(daysets[::-1], how) if vname == 'call-allkw-reversed' else days
                            _check_seq_result(out, res, models, vdays, method, 'presync[%s](%s, %s, %s)' % (vname, desc, how, method), dict(f='presync-' + vname, **sig))
                    except Exception as e:
                        out.viol('raised', 'presync[%s](%s, %s, %s) raised %s: %s' % (vname, desc, how, method, type(e).__name__, e), f='presync-' + vname, **sig)
    # an infinite observation is an observation: it is kept and carried by the as-of fill like any other value
    if k == 2 and models[0]:
        first_day = sorted(models[0])[0]
        vals_inf = {d: (float('inf') if d == first_day else (None if models[0][d] is None else -float('inf') if d == sorted(models[0])[-1] else models[0][d])) for d in models[0]}
        if vals_inf[first_day] is not None:
            minf = [vals_inf, models[1]]
            for how_ in ('oj', 'ij'):
                days_ = tm.common_days(daysets, how_)
                for method_ in ('ffill', 'bfill'):
                    out.sub()
                    try:
                        res_ = df_sync([tm.build_series(m_) for m_ in minf], how_, method_)
                        out.call()
                        _check_seq_result(out, res_, minf, days_, method_, 'df_sync(%s with +inf / -inf as first / last observation of the first series, %s, %s)' % (desc, how_, method_),
                                          dict(f='df_sync-inf', how=how_, method=method_, k=k))
                    except Exception as e:
                        out.viol('raised', 'df_sync(%s with infinite observations, %s, %s) raised %s: %s' % (desc, how_, method_, type(e).__name__, e), f='df_sync-inf', how=how_, method=method_, k=k)
    # explicit timeseries as the index
    out.sub()
    ss = fresh()
    try:
        res = df_reindex(ss[1:], ss[0], method='ffill')
        out.call()
        _check_seq_result(out, res, models[1:], sorted(models[0]), 'ffill', 'df_reindex(%s, index = first series, ffill)' % desc, dict(f='df_reindex-ts'))
    except Exception as e:
        out.viol('raised', 'df_reindex(.., index=ts) %s raised %s: %s' % (desc, type(e).__name__, e), f='df_reindex-ts')
    ij, oj = tm.common_days(daysets, 'ij'), tm.common_days(daysets, 'oj')
    gaps = any(any(m.get(d) is None for d in oj) for m in models)
    if len(set(map(frozenset, daysets))) > 1 and (len(ij) < len(oj)):
        out.nontrivial()
    out.cls('%s%s%s' % ('E' if not ij else 'I', 'G' if gaps else '-', 'D' if len(set(map(frozenset, daysets))) > 1 else '='))
    return out


# ------------------------------------------------------------------------------------------------ nested containers, non-ts members

def gen_nested(T):
    V = tm.series_variants(T, ['none', 'interior'])
    for combo in itertools.product(range(len(V)), repeat=3):
        yield {'T': T, 'v': [V[i] for i in combo]}


class _Marker:
    pass


def check_nested(case):
    from pyg_base import df_sync, presync, df_reindex, df_index
    out = Out()
    models = [tm.model_series(d, k) for k, d in enumerate(case['v'])]
    daysets = [set(m) for m in models]
    desc = 'series %s' % [[sorted(m), sorted(d for d in m if m[d] is None)] for m in models]
    marker = _Marker()

    def shapes():
        s = [tm.build_series(m) for m in models]
        return [
            ('[s0,{x:s1,y:[s2,txt]}]', [s[0], {'x': s[1], 'y': [s[2], 'txt']}], [0, 1, 2],
             lambda r: (type(r) is list and type(r[1]) is dict and list(r[1]) == ['x', 'y'] and type(r[1]['y']) is list and r[1]['y'][1] == 'txt',
                        [r[0], r[1]['x'], r[1]['y'][0]])),
            ('{p:[s0,s1],q:3.5,r:s2,m:obj,n:None}', {'p': [s[0], s[1]], 'q': 3.5, 'r': s[2], 'm': marker, 'n': None}, [0, 1, 2],
             lambda r: (type(r) is dict and list(r) == ['p', 'q', 'r', 'm', 'n'] and r['q'] == 3.5 and r['m'] is marker and r['n'] is None and type(r['p']) is list,
                        [r['p'][0], r['p'][1], r['r']])),
            ("[{index:s0,stock:s1},s2]", [{'index': s[0], 'stock': s[1]}, s[2]], [0, 1, 2],
             lambda r: (type(r) is list and type(r[0]) is dict and list(r[0]) == ['index', 'stock'], [r[0]['index'], r[0]['stock'], r[1]])),
            ("{index:s0,other:[s1,s2]}", {'index': s[0], 'other': [s[1], s[2]]}, [0, 1, 2],
             lambda r: (type(r) is dict and list(r) == ['index', 'other'] and type(r['other']) is list, [r['index'], r['other'][0], r['other'][1]])),
            # a dict built in NON-sorted key order: first / last (lj / rj) follow the order the members were put in, not the alphabet
            ('{y:s0,x:[s1,s2]}', {'y': s[0], 'x': [s[1], s[2]]}, [0, 1, 2],
             lambda r: (type(r) is dict and list(r) == ['y', 'x'] and type(r['x']) is list, [r['y'], r['x'][0], r['x'][1]])),
            ('[[s0],[[s1]],txt,s2]', [[s[0]], [[s[1]]], 'txt', s[2]], [0, 1, 2],
             lambda r: (type(r) is list and type(r[0]) is list and type(r[1]) is list and type(r[1][0]) is list and r[2] == 'txt',
                        [r[0][0], r[1][0][0], r[3]])),
        ]

    for how in ('ij', 'oj', 'lj', 'rj'):
        for method in METHODS:
            days = tm.common_days(daysets, how)
            for name, obj, order, probe in shapes():
                if method is None:
                    # the common index of the container itself (df_index flattens the container on its own)
                    out.sub()
                    try:
                        idx = df_index(obj, how)
                        out.call()
                        if [tm.daynum(t) for t in idx] != days:
                            out.viol('wrong-index', 'df_index(%s of %s, %r) = %s expected days %s' % (name, desc, how, [tm.daynum(t) for t in idx], days), how=how, f='df_index-nested', shape=name)
                    except Exception as e:
                        out.viol('raised', 'df_index(%s of %s, %r) raised %s: %s' % (name, desc, how, type(e).__name__, e), how=how, f='df_index-nested', shape=name)
                out.sub()
                sig = dict(shape=name, how=how, method=str(method))
                try:
                    res = df_sync(obj, how, method)
                    out.call()
                    ok, members = probe(res)
                    if not ok:
                        out.viol('container-changed', 'df_sync(%s of %s, %s, %s): structure / non-timeseries members not preserved: %r' % (name, desc, how, method, res), **sig)
                    else:
                        _check_seq_result(out, members, [models[i] for i in order], days, method, 'df_sync(%s of %s, %s, %s)' % (name, desc, how, method), sig)
                except Exception as e:
                    out.viol('raised', 'df_sync(%s of %s, %s, %s) raised %s: %s' % (name, desc, how, method, type(e).__name__, e), exc=type(e).__name__, **sig)
            # the method spelt as a LIST (the documented 'str or list of str'), one list object serving the whole call and the next call
            if method is not None and how in ('ij', 'oj'):
                mlist = [method]
                for rep in (1, 2):
                    for name, obj, order, probe in [sh for sh in shapes() if sh[0][0] == '{' or sh[0].startswith('[{')]:
                        out.sub()
                        sig = dict(shape=name, how=how, method='[%s]' % method, call=rep)
                        try:
                            res = df_sync(obj, how, mlist)
                            out.call()
                            ok, members = probe(res)
                            if not ok:
                                out.viol('container-changed', 'df_sync(%s of %s, %s, [%s]): structure / non-timeseries members not preserved: %r' % (name, desc, how, method, res), **sig)
                            else:
                                _check_seq_result(out, members, [models[i] for i in order], days, method, 'df_sync(%s of %s, %s, method=[%r]) (call %d with this list object)' % (
                                    name, desc, how, method, rep), sig)
                        except Exception as e:
                            out.viol('raised', 'df_sync(%s of %s, %s, [%s]) raised %s: %s' % (name, desc, how, method, type(e).__name__, e), exc=type(e).__name__, **sig)
                        if mlist != [method]:
                            out.viol('operand-mutated', 'df_sync(%s of %s, %s, method=m) with m = [%r]: the list is now %r' % (name, desc, how, method, mlist), **sig)
                            mlist = [method]
                fl = presync(lambda a, b: (a, b), index=dict(ij='inner', oj='outer', lj='left', rj='right')[how], method=[method])
                sl = [tm.build_series(m) for m in models]
                for rep in (1, 2):
                    out.sub()
                    sig = dict(shape='presync-kw-listmethod', how=how, method='[%s]' % method, call=rep)
                    try:
                        a, b = fl(a=[sl[0], sl[1]], b={'z': sl[2], 'w': 1.5})
                        out.call()
                        _check_seq_result(out, [a[0], a[1], b['z']], models, days, method, 'presync(method=[%r]) object, call %d, keyword arguments (%s, %s)' % (method, rep, desc, how), sig)
                    except Exception as e:
                        out.viol('raised', 'presync(method=[%r]) call %d (%s, %s) raised %s: %s' % (method, rep, desc, how, type(e).__name__, e), exc=type(e).__name__, **sig)
            # presync with nested arguments, positional and by keyword
            f = presync(lambda a, b: (a, b), index=dict(ij='inner', oj='outer', lj='left', rj='right')[how], method=method)
            s = [tm.build_series(m) for m in models]
            for vname, call in [('pos', lambda: f({'x': s[0], 'y': [s[1], 'txt']}, s[2])), ('kw', lambda: f(a=[s[0], s[1]], b={'z': s[2], 'w': 1.5}))]:
                out.sub()
                sig = dict(shape='presync-' + vname, how=how, method=str(method))
                try:
                    a, b = call()
                    out.call()
                    if vname == 'pos':
                        ok = type(a) is dict and list(a) == ['x', 'y'] and type(a['y']) is list and a['y'][1] == 'txt'
                        members = [a['x'], a['y'][0], b] if ok else []
                    else:
                        ok = type(a) is list and len(a) == 2 and type(b) is dict and list(b) == ['z', 'w'] and b['w'] == 1.5
                        members = [a[0], a[1], b['z']] if ok else []
                    if not ok:
                        out.viol('container-changed', 'presync[%s] nested args of %s: structure not preserved: %r %r' % (vname, desc, a, b), **sig)
                    else:
                        _check_seq_result(out, members, models, days, method, 'presync[%s] nested (%s, %s, %s)' % (vname, desc, how, method), sig)
                except Exception as e:
                    out.viol('raised', 'presync[%s] nested args (%s, %s, %s) raised %s: %s' % (vname, desc, how, method, type(e).__name__, e), exc=type(e).__name__, **sig)
    if len(set(map(frozenset, daysets))) > 1:
        out.nontrivial()
    out.cls('nested-%d' % len(set(map(frozenset, daysets))))
    return out


# ------------------------------------------------------------------------------------------------ frames and columns

def gen_frames(T):
    subs = [list(d) for d in (tuple(i for i in range(T) if b[i]) for b in itertools.product([0, 1], repeat=T))]
    rowmasks = ['none', 'first', 'all']
    V = [(s, m) for s in subs for m in rowmasks if not (m != 'none' and not s)]
    for a in V:
        for b in V:
            yield {'T': T, 'f': [[a[0], a[1]], [b[0], b[1]]]}


def check_frames(case):
    from pyg_base import df_sync, df_reindex
    out = Out()
    colsets = [['a', 'b'], ['b', 'c']]
    mfs = []
    for k, (days, rm) in enumerate(case['f']):
        nanrows = set(days[p] for p in tm.nan_positions(len(days), rm))
        mfs.append({c: {d: (None if d in nanrows else float(1000 * (k + 1) + 10 * ci + d)) for d in days} for ci, c in enumerate(colsets[k])})
    daysets = [set(case['f'][0][0]), set(case['f'][1][0])]
    desc = 'frames %s' % case['f']
    for how in ('ij', 'oj', 'lj', 'rj'):
        days = tm.common_days(daysets + [daysets[0]], how)      # the 1-column frame (on the first frame's days) is the LAST timeseries
        for method in (None, 'ffill', 'bfill'):
            for colpol in ('ij', 'oj', False):
                out.sub()
                sig = dict(how=how, method=str(method), columns=str(colpol))
                fs = [tm.build_frame(m) for m in mfs]
                one = tm.build_frame({'z': {d: float(5000 + d) for d in sorted(daysets[0])}})       # a 1-column frame rides along
                try:
                    res = df_sync([fs[0], {'g': fs[1]}, one, 'txt'], how, method, colpol)
                    out.call()
                except Exception as e:
                    out.viol('raised', 'df_sync(%s, %s, %s, columns=%s) raised %s: %s' % (desc, how, method, colpol, type(e).__name__, e), exc=type(e).__name__, **sig)
                    continue
                if not (type(res) is list and len(res) == 4 and type(res[1]) is dict and res[3] == 'txt'):
                    out.viol('container-changed', 'df_sync(%s ...) returned %r' % (desc, res), **sig)
                    continue
                got = [res[0], res[1]['g']]
                if colpol == 'ij':
                    cols = ['b']
                elif colpol == 'oj':
                    cols = ['a', 'b', 'c']
                for k in range(2):
                    want_cols = colsets[k] if colpol is False else cols
                    expect = {}
                    for c in want_cols:
                        src = mfs[k].get(c)
                        expect[c] = tm.align(src, days, method) if src is not None else {d: None for d in days}
                    p = tm.frame_problem(got[k], expect, want_cols, 'df_sync(%s, %s, %s, columns=%s) frame %d' % (desc, how, method, colpol, k))
                    if p:
                        out.viol('wrong-alignment', p, frame=k, **sig)
                        break
                p = tm.frame_problem(res[2], {'z': tm.align({d: float(5000 + d) for d in sorted(daysets[0])}, days, method)}, ['z'], 'the 1-column frame')
                if p:
                    out.viol('wrong-alignment', p, frame='1col', **sig)
    # ---- a PARTLY observed row (NaN in column a, a value in column b) with a fill method: whether the NaN is filled per value or per row is not stated,
    #      but every cell that holds an observation keeps it at every surviving timestamp
    d0 = sorted(daysets[0])
    if d0 and case['f'][0][1] == 'none':
        for hole in sorted(set([d0[0], d0[len(d0) // 2]])):
            mp = {c: dict(col) for c, col in mfs[0].items()}
            mp['a'][hole] = None
            for how in ('ij', 'oj', 'lj'):
                days = tm.common_days(daysets, how)
                for method in ('ffill', 'bfill'):
                    out.sub()
                    sig = dict(how=how, method=method, columns='False', partial_row=True)
                    try:
                        res = df_sync([tm.build_frame(mp), tm.build_frame(mfs[1])], how, method, False)
                        out.call()
                        got = res[0]
                        if [tm.daynum(t) for t in got.index] != days or sorted(got.columns) != ['a', 'b']:
                            out.viol('wrong-alignment', 'df_sync(frame with a partly observed row at day %d, %s; %s, %s): index %s columns %s, expected days %s' % (
                                hole, desc, how, method, [tm.daynum(t) for t in got.index], list(got.columns), days), frame=0, **sig)
                            continue
                        for c in ('a', 'b'):
                            for d in days:
                                if mp[c].get(d) is not None and not tm.cell_ok(got[c][tm.day(d)], mp[c][d]):
                                    out.viol('wrong-alignment', 'df_sync(frame whose row at day %d is NaN in column a only, %s; %s, %s): the observed cell [%s, day %d] = %r became %r' % (
                                        hole, desc, how, method, c, d, mp[c][d], got[c][tm.day(d)]), frame=0, **sig)
                                    break
                    except Exception as e:
                        out.viol('raised', 'df_sync(frame with a partly observed row, %s, %s, %s) raised %s: %s' % (desc, how, method, type(e).__name__, e), exc=type(e).__name__, **sig)
    if daysets[0] != daysets[1]:
        out.nontrivial()
    out.cls('frames-%s' % ('same' if daysets[0] == daysets[1] else 'diff'))
    return out


# ------------------------------------------------------------------------------------------------ bare numpy arrays

def gen_arrays(maxlen):
    for k in (2, 3):
        for lens in itertools.product(range(maxlen + 1), repeat=k):
            yield {'lens': list(lens), 'twod': False}
    for lens in itertools.product(range(maxlen + 1), repeat=2):
        yield {'lens': list(lens), 'twod': True}
        yield {'lens': list(lens), 'twod': False, 'ints': True}


def check_arrays(case):
    from pyg_base import df_sync, df_index, df_reindex, presync
    out = Out()
    lens = case['lens']

    def build():
        arrs = [np.array([10.0 * (k + 1) + i for i in range(n)]) for k, n in enumerate(lens)]
        if case.get('ints'):
            arrs = [a.astype(np.int64 if k % 2 == 0 else bool) for k, a in enumerate(arrs)]          # integer / bool arrays: the NaN padding makes them float
        if case['twod']:
            arrs[0] = np.array([[10.0 + i, 50.0 + i] for i in range(lens[0])]).reshape(lens[0], 2)
        return arrs

    for how in ('ij', 'oj', 'lj', 'rj'):
        n = {'ij': min(lens), 'oj': max(lens), 'lj': lens[0], 'rj': lens[-1]}[how]
        sig = dict(how=how, zero=(n == 0), twod=case['twod'])
        calls = [('df_sync', lambda a: df_sync(a, how)), ('df_sync-dict', lambda a: list(df_sync({'k%d' % i: x for i, x in enumerate(a)}, how).values())),
                 ('df_reindex', lambda a: df_reindex(a, how))]
        if len(lens) == 2 and not case['twod']:
            calls.append(('presync', lambda a: list(presync(lambda a, b: (a, b), index=dict(ij='inner', oj='outer', lj='left', rj='right')[how])(*a))))
        for fname, f in calls:
            out.sub()
            arrs = build()
            snaps = [a.copy() for a in arrs]
            try:
                res = f(arrs)
                out.call()
            except Exception as e:
                out.viol('raised', '%s(arrays of lengths %s, %s) raised %s: %s' % (fname, lens, how, type(e).__name__, e), f=fname, **sig)
                continue
            for k, (r, a) in enumerate(zip(res, snaps)):
                if len(a) >= n:
                    want = a[len(a) - n:]
                elif case.get('ints'):
                    want = np.concatenate([np.full((n - len(a),), np.nan), a.astype(float)])
                    if isinstance(r, np.ndarray) and r.shape == want.shape and r.dtype.kind in 'iub':
                        r = None          # an integer / bool result cannot hold the NaN padding
                    elif isinstance(r, np.ndarray):
                        r = np.asarray(r, dtype=float)
                else:
                    pad = np.full((n - len(a),) + a.shape[1:], np.nan)
                    want = np.concatenate([pad, a])
                if not isinstance(r, np.ndarray) or r.shape != want.shape or not np.array_equal(r, want, equal_nan=True):
                    out.viol('wrong-array-alignment', '%s(arrays of lengths %s, %s): array %d came back as %r, expected %r' % (fname, lens, how, k, r, want), f=fname, **sig)
                    break
            if any(not np.array_equal(a, s, equal_nan=True) for a, s in zip(arrs, snaps)):
                out.viol('operand-mutated', '%s changed an input array' % fname, f=fname, **sig)
    if len(set(lens)) > 1:
        out.nontrivial()
    out.cls('arr-%s' % ('zero' if 0 in lens else 'pos'))
    return out


def suites(tier, seed):
    q = tier == 'quick'
    T = 4 if q else 5
    pm = ['none', 'first', 'interior'] if q else tm.MASKS
    tT, tm3 = (3, ['none']) if q else (4, ['none', 'interior'])
    S = [
        Suite('series_pairs', lambda: gen_pairs(T, 2, pm, q), check_series,
              rule='all ordered pairs of Series over every index subset of a %d-day timeline x NaN patterns %s; every join policy (ij,oj,lj,rj,inner,outer, '
                   '4 explicit indices, explicit timeseries) x fill method (None,ffill,bfill) through df_index, df_sync(list/dict), df_reindex and presync '
                   '(decorator / call-time / keyword / property spellings); non-trivial = index sets differ and the intersection is smaller than the union' % (T, pm),
              bounds=dict(days=T, members=2, nan_patterns=pm)),
        Suite('series_triples', lambda: gen_pairs(tT, 3, tm3, q), check_series,
              rule='all ordered triples of Series over every index subset of a %d-day timeline (NaN patterns %s), same entry points' % (tT, tm3),
              bounds=dict(days=tT, members=3, nan_patterns=tm3)),
        Suite('nested', lambda: gen_nested(3 if q else 4), check_nested,
              rule='all triples of Series (subsets of %d days, NaN-free or interior NaN) inside nested list/dict containers mixed with strings, numbers, None '
                   'and an arbitrary object; df_sync and presync with nested positional / keyword arguments; structure, keys and identity of non-timeseries '
                   'members preserved' % (3 if q else 4), bounds=dict(days=3 if q else 4)),
        Suite('frames', lambda: gen_frames(3 if q else 4), check_frames,
              rule='all ordered pairs of 2-column frames ({a,b} and {b,c}) over every index subset of %d days x whole-row NaN patterns, plus a 1-column frame, '
                   'x join x method x column policy (ij, oj, False)' % (3 if q else 4), bounds=dict(days=3 if q else 4)),
        Suite('arrays', lambda: gen_arrays(4 if q else 5), check_arrays,
              rule='all tuples of 2-3 one-dimensional arrays of length 0..%d (and pairs with a 2-d array) x 4 policies through df_sync, df_reindex, presync: '
                   'longer arrays keep their last rows, shorter ones get NaN rows in front, a common length of 0 empties every array' % (4 if q else 5),
              bounds=dict(max_len=4 if q else 5)),
    ]
    return S
