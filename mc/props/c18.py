"""
C18 -- decorators are transparent: same results, same signature, no double wrapping (DESIGN.md section 4, C18).

E2 'programs': all 60 signatures (0..4 positional parameters, any number of trailing defaults, +-*args, +-**kwargs) x every
valid call (as decided by inspect.signature.bind) x 11 decorators x all stacks of <= 2 (quick) / <= 3 (thorough) decorators:
results, argument specification, double wrapping, getcallargs / call_with_callargs, try_* fallbacks, kwargs_support.
E1 'cache_histories': BFS over call sequences on a cached function against a call-counting dict model.
"""
import collections
import inspect
import itertools
import json

from mc.engine import Suite, BfsSuite, Out
from mc.codec import show

PROPERTY = 'C18'
ASSUMPTIONS = [
    'no keyword-only parameters; parameter names are a,b,c,d (names consumed by some wrappers by design - axis/join/method/columns/data/expiry - are not used)',
    'arguments are hashable strings; loops / pd2np are given non-container, non-pandas arguments (the statement covers exactly that)',
    'cache: list and tuple spellings of the same elements are not mixed in one history (_prehash maps both to one key); a raising call is only '
    'required to propagate its exception (how often f is evaluated for it is not claimed)',
    'try_back fallback is only checked when the first parameter is passed explicitly',
    'wrapper objects are compared on type, .function and ._kwargs - not on dict equality, which also sees the lazily cached spec',
]

NAMES = ['a', 'b', 'c', 'd']
TOK = dict(a='A', b='B', c='C', d='D')


def signatures():
    sigs = []
    for p in range(5):
        for k in range(p + 1):
            for va in (False, True):
                for vk in (False, True):
                    sigs.append(dict(p=p, k=k, va=va, vk=vk))
    return sigs


SIGS = signatures()


class _Sentinel(object):
    def __repr__(self):
        return '<MISSING>'


_SENT = _Sentinel()


def make(sig, raising=False):
    p, k = sig['p'], sig['k']
    params = []
    for i, n in enumerate(NAMES[:p]):
        # the LAST defaulted parameter defaults to a sentinel object (the `_MISSING = object()` idiom): a binding must hand out that very object
        params.append(n if i < p - k else ("%s=_SENT" % n if i == p - 1 else "%s='d%s'" % (n, n)))
    if sig['va']:
        params.append('*args')
    if sig['vk']:
        params.append('**kwargs')
    vals = NAMES[:p] + (['args'] if sig['va'] else ['()']) + (['tuple(sorted(kwargs.items()))'] if sig['vk'] else ['()'])
    allv = '[%s]' % ', '.join(NAMES[:p]) + (' + list(args)' if sig['va'] else '') + (' + list(kwargs.values())' if sig['vk'] else '')
    body = ''
    if raising:
        body = "    if 'boom' in (%s):\n        raise KeyError('boom')\n" % allv
    src = 'def f(%s):\n%s    return (%s,)\n' % (', '.join(params), body, ', '.join(vals))
    ns = {'_SENT': _SENT}
    exec(src, ns)
    return ns['f']


def calls(sig):
    """every valid call as (args tuple, kwargs dict), decided by inspect.signature.bind"""
    f = make(sig)
    s = inspect.signature(f)
    p, k = sig['p'], sig['k']
    res = []
    for i in range(p + 1):
        extras = [0, 1, 2] if (sig['va'] and i == p) else [0]
        for e in extras:
            args = tuple(TOK[n] for n in NAMES[:i]) + tuple('E%d' % (j + 1) for j in range(e))
            rest = NAMES[i:p]
            req = [n for n in rest if NAMES.index(n) < p - k]
            opt = [n for n in rest if NAMES.index(n) >= p - k]
            for r in range(len(opt) + 1):
                for chosen in itertools.combinations(opt, r):
                    for zz in ([None, 'zz', 'args', 'kwargs'] if sig['vk'] else [None]):
                        names = req + list(chosen)
                        for order in ([names, names[::-1]] if len(names) > 1 else [names]):
                            kw = {n: TOK[n] for n in order}
                            if zz:
                                kw[zz] = 'Z'          # an undeclared keyword; 'args' / 'kwargs' are spelt like the star parameters themselves
                            try:
                                s.bind(*args, **kw)
                            except TypeError:
                                continue
                            res.append((args, kw))
                            if zz == 'zz':
                                kw2 = dict(kw)
                                kw2['aa2'] = 'Y'          # TWO undeclared keywords, passed in non-alphabetical order (zz before aa2)
                                res.append((args, kw2))
    return res


def decorators():
    import pyg_base as P
    from pyg_base import try_none, try_nan, try_zero, try_false, try_list, try_back, kwargs_support, cache, loop, pd2np
    D = [('try_none', try_none), ('try_nan', try_nan), ('try_zero', try_zero), ('try_false', try_false), ('try_list', try_list),
         ('try_back', try_back), ('kwargs_support', kwargs_support), ('cache', cache), ('loop', loop(list, tuple, dict)), ('pd2np', pd2np),
         ('pd2np_exc_b', pd2np(exc='b'))]          # a decorator built with its optional parameter: b is passed through untouched, on pandas and on plain input alike
    return D


NDEC = 11
FOUR = [2, 6, 7, 8]          # try_zero, kwargs_support, cache, loop: the decorators used for the 4-deep stacks
FALLBACK = dict(try_none=None, try_nan='nan', try_zero=0, try_false=False, try_list=[])


def spec_problem(w, f):
    from pyg_base import getargspec
    want = inspect.getfullargspec(f)
    try:
        got = getargspec(w)
    except Exception as e:
        return 'getargspec raised %s: %s' % (type(e).__name__, e)
    for field in ('args', 'varargs', 'varkw', 'defaults', 'kwonlyargs', 'kwonlydefaults', 'annotations'):
        g = getattr(got, field) if hasattr(got, field) else got[field]
        if g != getattr(want, field):
            return 'field %s is %r, inspect.getfullargspec gives %r' % (field, g, getattr(want, field))
    return None


def check_program(case):
    from pyg_base import getcallargs, call_with_callargs, wrapper
    out = Out()
    sig = SIGS[case['sig']]
    f = make(sig)
    fr = make(sig, raising=True)
    C = calls(sig)
    D = decorators()
    label = 'f%s' % (inspect.signature(f),)
    which = case['dec']
    if which == 'binding':
        # ---- the binding re-implementation
        for args, kw in C:
            out.sub()
            clab = '%s called with args=%r kwargs=%r' % (label, args, kw)
            want = inspect.getcallargs(f, *args, **kw)
            try:
                got = getcallargs(f, *args, **kw)
                out.call()
                if got != want:
                    out.viol('getcallargs-differs', '%s: getcallargs = %r, inspect.getcallargs = %r' % (clab, got, want), va=sig['va'], vk=sig['vk'])
                elif sig['vk'] and list(got['kwargs'].items()) != list(want['kwargs'].items()):
                    out.viol('getcallargs-differs', '%s: the keywords bound to **kwargs come in the order %r, the caller passed them (and inspect binds them) as %r' % (
                        clab, list(got['kwargs']), list(want['kwargs'])), va=sig['va'], vk=sig['vk'], order=True)
                r = call_with_callargs(f, got)
                out.call()
                if r != f(*args, **kw):
                    out.viol('call_with_callargs-differs', '%s: call_with_callargs(f, callargs) = %r, f(...) = %r' % (clab, r, f(*args, **kw)), va=sig['va'], vk=sig['vk'])
                # the binding is the caller's: it must survive the call and serve a second one
                if got != want:
                    out.viol('callargs-consumed', '%s: after call_with_callargs(f, callargs) the callargs dict is %r (was %r)' % (clab, got, want), va=sig['va'], vk=sig['vk'])
                else:
                    r2 = call_with_callargs(f, got)
                    out.call()
                    if r2 != r:
                        out.viol('call_with_callargs-differs', '%s: a second call_with_callargs on the same callargs gives %r, the first gave %r' % (clab, r2, r), va=sig['va'], vk=sig['vk'], second=True)
            except Exception as e:
                out.viol('binding-raised', '%s: %s: %s' % (clab, type(e).__name__, e), exc=type(e).__name__, va=sig['va'], vk=sig['vk'])
            if kw and args:
                out.nontrivial(json.dumps([args, sorted(kw)]))
            # ---- the VALUES are the caller's: None / 0 / '' / () passed for a parameter (with or without a default) is that value, not 'nothing passed'
            slots = [('pos', i) for i in range(len(args))] + [('kw', n) for n in kw]
            for where, key in slots:
                for v in (None, 0, '', ()):
                    a2 = tuple(v if (where == 'pos' and i == key) else x for i, x in enumerate(args))
                    k2 = {n: (v if (where == 'kw' and n == key) else x) for n, x in kw.items()}
                    clab2 = '%s called with args=%r kwargs=%r' % (label, a2, k2)
                    try:
                        want2 = inspect.getcallargs(f, *a2, **k2)
                        got2 = getcallargs(f, *a2, **k2)
                        out.call()
                        if got2 != want2:
                            out.viol('getcallargs-differs', '%s: getcallargs = %r, inspect.getcallargs = %r' % (clab2, got2, want2), va=sig['va'], vk=sig['vk'], value=repr(v))
                            continue
                        r = call_with_callargs(f, got2)
                        out.call()
                        if r != f(*a2, **k2) or repr(r) != repr(f(*a2, **k2)):
                            out.viol('call_with_callargs-differs', '%s: call_with_callargs(f, callargs) = %r, f(...) = %r' % (clab2, r, f(*a2, **k2)), va=sig['va'], vk=sig['vk'], value=repr(v))
                    except Exception as e:
                        out.viol('binding-raised', '%s: %s: %s' % (clab2, type(e).__name__, e), exc=type(e).__name__, va=sig['va'], vk=sig['vk'], value=repr(v))
        out.cls('binding')
        return out

    dname, W = D[which]
    depth = case['depth']
    stacks = [[which]]
    if depth >= 2:
        stacks += [[which, j] for j in range(len(D))]
    if depth >= 3:
        stacks += [[which, j, l] for j in range(len(D)) for l in range(len(D))]
    if depth >= 2 and which in FOUR and (sig['p'], sig['k']) in ((2, 1), (1, 0), (3, 3)):
        # the same decorator innermost and outermost with TWO different ones in between: W(V(U(W(f)))) keeps U and V and holds W once
        stacks += [[which, j, l, which] for j in FOUR for l in FOUR if len({which, j, l}) == 3]
    for st in stacks:
        names = [D[i][0] for i in st]
        sname = '('.join(reversed(names)) + '(f' + ')' * len(st)         # outermost first

        def build(fn, st=st):
            g = fn
            for i in st:
                g = D[i][1](g)
            return g
        try:
            g = build(f)
        except Exception as e:
            out.viol('wrapping-raised', '%s of %s raised %s: %s' % (sname, label, type(e).__name__, e), stack=names)
            continue
        # ---- argument specification
        out.sub()
        p = spec_problem(g, f)
        out.call()
        if p:
            out.viol('argspec-differs', '%s of %s: %s' % (sname, label, p), outer=names[-1], n=len(st))
        # ---- wrapping twice (directly, or through the chain) equals wrapping once
        out.sub()
        try:
            outer = D[st[-1]][1]
            gg = outer(g)
            out.call()
            ok = type(gg) is type(g) and gg._kwargs == build(f)._kwargs and not isinstance(gg.function, type(g)) and _chain(gg) == _chain(g)
            if not ok:
                out.viol('double-wrapping', '%s(%s) of %s: type %s kwargs %r chain %s, wrapping once gives type %s kwargs %r chain %s' % (
                    names[-1], sname, label, type(gg).__name__, gg._kwargs, _chain(gg), type(g).__name__, build(f)._kwargs, _chain(g)), outer=names[-1], n=len(st))
            if len(st) >= 2:
                # W(V(W(f))): the inner W must be unwrapped
                first = D[st[0]][1]
                h = build(f)
                hh = first(h) if len(st) == 1 else None
                inner_twice = D[st[0]][1](D[st[0]][1](f))
                if type(inner_twice) is not type(D[st[0]][1](f)) or isinstance(inner_twice.function, type(inner_twice)):
                    out.viol('double-wrapping', '%s(%s(f)) keeps two layers' % (names[0], names[0]), outer=names[0], n=1)
                if st[-1] == st[0] and len(st) >= 3 and st[0] not in st[1:-1]:
                    ch = _chain(g)
                    mid = [type(D[i][1](f)).__name__ for i in st[1:-1]]
                    # (two decorators of ONE class - try_none / try_false, pd2np / pd2np(exc=) - are the same wrapper to the no-double-wrapping rule: not judged here)
                    if type(g).__name__ not in mid and len(set(mid)) == len(mid) and [c for c in ch if c != type(g).__name__] != mid[::-1]:
                        out.viol('double-wrapping', '%s of %s: the decorators in between were lost or reordered: chain %s, expected %s below one %s' % (
                            sname, label, ch, mid[::-1], type(g).__name__), outer=names[-1], n=len(st), through_chain=True, lost=True)
                    if ch.count(type(g).__name__) != 1:
                        out.viol('double-wrapping', '%s of %s: the same decorator appears twice in the chain %s' % (sname, label, ch), outer=names[-1], n=len(st), through_chain=True)
        except Exception as e:
            out.viol('wrapping-raised', 're-wrapping %s of %s raised %s: %s' % (sname, label, type(e).__name__, e), stack=names, again=True)
        # ---- wrapping an existing wrapped function once more must leave THAT object as it was (same chain of decorators, same behaviour)
        if len(st) >= 2:
            out.sub()
            try:
                def probe0(w):
                    for args, kw in C[:4]:
                        for boom in (False, True):
                            a2 = tuple('boom' if (boom and i_ == 0) else v for i_, v in enumerate(args))
                            k2 = {k_: ('boom' if (boom and not args and i_ == 0) else v) for i_, (k_, v) in enumerate(kw.items())}
                            try:
                                w(*a2, **k2)
                            except Exception:
                                pass
                _use_layers = True
                h = fr
                layers = []          # every intermediate object of the stack is the caller's: x1 = d1(f), x2 = d2(x1), ...
                for i in st[:-1]:
                    h = D[i][1](h)
                    layers.append(h)
                    _use_layers and probe0(h)          # every layer is USED by its owner before the next one is put around it (a cache has its dict by then)
                chain_before = _chain(h)

                def probe(w):
                    res_ = []
                    for args, kw in C[:4]:
                        for boom in (False, True):
                            a2 = tuple('boom' if (boom and i_ == 0) else v for i_, v in enumerate(args))
                            k2 = {k_: ('boom' if (boom and not args and i_ == 0) else v) for i_, (k_, v) in enumerate(kw.items())}
                            try:
                                res_.append(('ok', repr(w(*a2, **k2))))
                            except Exception as e_:
                                res_.append(('raise', type(e_).__name__))
                    return res_
                before = [(_chain(x), probe(x)) for x in layers]
                g2 = D[st[-1]][1](h)
                out.call()
                probe(g2)          # ... and USING the new wrapper (its fallbacks, its cache) must not show through the caller's objects either
                for li, x in enumerate(layers):
                    now = (_chain(x), probe(x))
                    if now != before[li]:
                        out.viol('wrapping-mutates-operand', '%s: x%d = %s; after g = %s(x%d) and calls of g, x%d itself has the chain %s (was %s) and answers %s (was %s)' % (
                            label, li + 1, '('.join(reversed(names[:li + 1])) + '(f' + ')' * (li + 1), names[-1], len(layers), li + 1, now[0], before[li][0], now[1][:4], before[li][1][:4]),
                            outer=names[-1], n=len(st), layer='operand' if li == len(layers) - 1 else 'inner', chain=now[0] != before[li][0])
                        break
            except Exception as e:
                out.viol('wrapping-raised', 're-wrapping check of %s raised %s: %s' % (sname, type(e).__name__, e), stack=names, again=True)
        # ---- results on every valid call
        has_ks = 'kwargs_support' in names
        for args, kw in C:
            out.sub()
            clab = '%s: %s called with args=%r kwargs=%r' % (sname, label, args, kw)
            want = f(*args, **kw)
            try:
                got = build(f)(*args, **dict(kw))
                out.call()
            except Exception as e:
                out.viol('wrapped-call-raised', '%s raised %s: %s (f returns %r)' % (clab, type(e).__name__, e, want), exc=type(e).__name__, outer=names[-1], n=len(st), first_passed=bool(args) or ('a' in kw))
                continue
            if got != want:
                und = [k_ for k_ in kw if k_ not in NAMES[:sig['p']]]
                if has_ks and sig['vk'] and und and got == f(*args, **{k_: v for k_, v in kw.items() if k_ not in und}):
                    out.viol('kwargs_support-drops-varkw', '%s returned %r: the undeclared keyword was dropped although f has **kwargs (f returns %r)' % (clab, got, want),
                             decorator='kwargs_support')
                else:
                    out.viol('not-transparent', '%s returned %r, f returns %r' % (clab, got, want), outer=names[-1], n=len(st))
            if kw and args:
                out.nontrivial(sname + json.dumps([args, sorted(kw)]))
        # ---- single decorators: fallbacks and keyword filtering
        if len(st) == 1:
            for args, kw in C:
                vals = list(args) + list(kw.values())
                if not vals:
                    continue
                # make exactly one argument 'boom'
                for pos in range(len(vals)):
                    if dname == 'kwargs_support' and pos >= len(args) and list(kw)[pos - len(args)] not in NAMES:
                        continue        # an undeclared keyword never reaches f under kwargs_support (reported separately as kwargs_support-drops-varkw)
                    a2 = tuple('boom' if i == pos else v for i, v in enumerate(args))
                    k2 = {k_: ('boom' if len(args) + i == pos else v) for i, (k_, v) in enumerate(kw.items())}
                    out.sub()
                    clab = '%s: twin %s called with args=%r kwargs=%r' % (sname, label, a2, k2)
                    try:
                        got = W(fr)(*a2, **k2)
                        out.call()
                        raised = None
                    except Exception as e:
                        got, raised = None, e
                    if dname in FALLBACK:
                        fb = FALLBACK[dname]
                        if raised is not None:
                            out.viol('try-did-not-catch', '%s raised %s: %s' % (clab, type(raised).__name__, raised), decorator=dname)
                        elif fb == 'nan':
                            if not (isinstance(got, float) and got != got):
                                out.viol('try-wrong-fallback', '%s returned %r, expected NaN' % (clab, got), decorator=dname)
                        elif got != fb or type(got) is not type(fb):
                            out.viol('try-wrong-fallback', '%s returned %r, expected %r' % (clab, got, fb), decorator=dname)
                    elif dname == 'try_back':
                        if a2 or 'a' in k2:
                            first = a2[0] if a2 else k2['a']
                            if raised is not None:
                                out.viol('try-did-not-catch', '%s raised %s: %s' % (clab, type(raised).__name__, raised), decorator=dname)
                            elif got != first:
                                out.viol('try-wrong-fallback', '%s returned %r, expected the first argument %r' % (clab, got, first), decorator=dname)
                    else:
                        if not isinstance(raised, KeyError):
                            out.viol('exception-swallowed', '%s returned %r / raised %r, f raises KeyError' % (clab, got, raised), decorator=dname)
                    break       # one position per call is enough for the fallback (every position is a first position of some call)
            if dname == 'try_list' and C:
                # a mutable fallback: what the caller does to one returned fallback must not show in the next one
                out.sub()
                args, kw = C[-1]
                vals = list(args) + list(kw.values())
                if vals:
                    a2 = tuple('boom' if i == 0 else v for i, v in enumerate(args))
                    k2 = {k_: ('boom' if len(args) + i == 0 else v) for i, (k_, v) in enumerate(kw.items())}
                    try:
                        w = W(fr)
                        r1 = w(*a2, **k2)
                        r1.append('seen')
                        r2 = w(*a2, **k2)
                        r3 = W(make(sig, raising=True))(*a2, **k2)
                        out.call(3)
                        if r2 != [] or r3 != [] or r2 is r1:
                            out.viol('try-wrong-fallback', 'try_list(%s): after the caller appended to the first fallback, the next fallbacks are %r and %r (expected fresh empty lists)' % (
                                label, r2, r3), decorator=dname, shared=True)
                    except Exception as e:
                        out.viol('try-did-not-catch', 'try_list(%s) twice raised %s: %s' % (label, type(e).__name__, e), decorator=dname, shared=True)
            if dname == 'kwargs_support' and not sig['vk']:
                for args, kw in C:
                    out.sub()
                    k2 = dict(kw, zz=1, yy=2)
                    try:
                        got = W(f)(*args, **k2)
                        out.call()
                        if got != f(*args, **kw):
                            out.viol('kwargs_support-wrong', 'kwargs_support(%s)(*%r, **%r) = %r, expected %r' % (label, args, k2, got, f(*args, **kw)), decorator=dname)
                    except Exception as e:
                        out.viol('kwargs_support-wrong', 'kwargs_support(%s)(*%r, **%r) raised %s: %s' % (label, args, k2, type(e).__name__, e), decorator=dname)
            # getcallargs through the wrapper
            from pyg_base import getcallargs as gca
            for args, kw in C[:6]:
                out.sub()
                try:
                    got = gca(W(f), *args, **kw)
                    out.call()
                    if got != inspect.getcallargs(f, *args, **kw):
                        out.viol('getcallargs-differs', 'getcallargs(%s(f), *%r, **%r) = %r, inspect on f gives %r' % (dname, args, kw, got, inspect.getcallargs(f, *args, **kw)),
                                 wrapped=True, decorator=dname)
                except Exception as e:
                    out.viol('binding-raised', 'getcallargs(%s(f), *%r, **%r) raised %s: %s' % (dname, args, kw, type(e).__name__, e), wrapped=True, decorator=dname)
    out.cls('dec-%s-%d' % (dname, depth))
    return out


def _chain(w):
    from pyg_base import wrapper
    ch = []
    while isinstance(w, wrapper):
        ch.append(type(w).__name__)
        w = w.function
    return ch


def gen_programs(depth, sig_subset3=None):
    for si in range(len(SIGS)):
        yield {'sig': si, 'dec': 'binding', 'depth': 0}
        for di in range(NDEC):
            d = depth
            if depth == 3 and sig_subset3 is not None and si not in sig_subset3:
                d = 2
            yield {'sig': si, 'dec': di, 'depth': d}


# ------------------------------------------------------------------------------------------------ try_* against an alphabet of exceptions

class _Custom(Exception):
    pass


EXCS = [
    ("KeyError('boom')", lambda: KeyError('boom')), ('KeyError((1, 2))', lambda: KeyError((1, 2))), ('KeyError(())', lambda: KeyError(())),
    ('ValueError((1, 2, 3))', lambda: ValueError((1, 2, 3))), ('ValueError()', lambda: ValueError()), ("ValueError('a', 'b')", lambda: ValueError('a', 'b')),
    ("TypeError('%s and %d')", lambda: TypeError('%s and %d')), ('IndexError([1, 2])', lambda: IndexError([1, 2])), ("_Custom({'a': 1})", lambda: _Custom({'a': 1})),
    ('ZeroDivisionError', lambda: ZeroDivisionError('division by zero')), ('AssertionError(None)', lambda: AssertionError(None)), ('StopIteration(3)', lambda: StopIteration(3)),
    ("LookupError(('%s',))", lambda: LookupError(('%s',))), ("OSError(2, 'gone')", lambda: OSError(2, 'gone')),
]
TRY_VALUES = [('None', None), ('0', 0), ("'V'", 'V'), ('[]', []), ("{'a': 1}", {'a': 1})]
VERBOSE = [None, False, True]


def gen_tries():
    for ei in range(len(EXCS)):
        yield {'exc': ei}


def check_tries(case):
    """a wrapper built with try_value(f, repeat=r, value=V, verbose=v): f fails its first k calls; the wrapper returns f's value when k <= r, else (a copy of) V,
    having called f min(k, r) + 1 times; the named wrappers try_none .. try_list / try_back on an f that always raises"""
    import pyg_base as P
    out = Out()
    ename, mk = EXCS[case['exc']]
    named = [('try_none', P.try_none, None), ('try_nan', P.try_nan, 'nan'), ('try_zero', P.try_zero, 0), ('try_false', P.try_false, False), ('try_true', P.try_true, True),
             ('try_list', P.try_list, []), ('try_back', P.try_back, 'first')]

    def raiser(a, b=0):
        raise mk()
    for nm, W, fb in named:
        for args, kw in (((7,), {}), ((), {'a': 7}), ((7,), {'b': 1}), ((), {'b': 1, 'a': 7})):
            out.sub()
            lab = '%s(f)(*%r, **%r) with f raising %s' % (nm, args, kw, ename)
            try:
                got = W(raiser)(*args, **kw)
                out.call()
            except BaseException as e:
                out.viol('try-did-not-catch', '%s raised %s: %s' % (lab, type(e).__name__, e), decorator=nm, exc=ename.split('(')[0])
                continue
            ok = (isinstance(got, float) and got != got) if fb == 'nan' else (got == 7) if fb == 'first' else (got == fb and type(got) is type(fb))
            if not ok:
                out.viol('try-wrong-fallback', '%s returned %r, expected %s' % (lab, got, 'the first argument 7' if fb == 'first' else repr(fb)), decorator=nm, exc=ename.split('(')[0])
    for vname, V in TRY_VALUES:
        for verbose in VERBOSE:
            for r in (0, 1, 2):
                for k in (0, 1, 2, 3, 4):
                    out.sub()
                    count = [0]

                    def f(a, count=count, k=k):
                        count[0] += 1
                        if count[0] <= k:
                            raise mk()
                        return ('ok', a)
                    lab = 'try_value(f, repeat=%d, value=%s, verbose=%r)(5) with f raising %s on its first %d calls' % (r, vname, verbose, ename, k)
                    try:
                        w = P.try_value(f, repeat=r, value=V, verbose=verbose)
                        got = w(5)
                        out.call()
                    except BaseException as e:
                        out.viol('try-did-not-catch', '%s raised %s: %s' % (lab, type(e).__name__, e), decorator='try_value', verbose=bool(verbose), exc=ename.split('(')[0])
                        continue
                    if k <= r:
                        exp, ncalls = ('ok', 5), k + 1
                    else:
                        exp, ncalls = V, r + 1
                    if got != exp or type(got) is not type(exp):
                        out.viol('try-wrong-fallback', '%s returned %r, expected %r' % (lab, got, exp), decorator='try_value', verbose=bool(verbose), fell_back=k > r)
                    elif count[0] != ncalls:
                        out.viol('try-call-count', '%s called f %d times, expected %d' % (lab, count[0], ncalls), decorator='try_value', repeat=r)
                    elif k > r and isinstance(V, (list, dict)) and got is V:
                        out.viol('try-wrong-fallback', '%s returned the very object given as value= (the caller could corrupt the next fallback)' % lab, decorator='try_value', shared=True)
                    out.cls('fallback' if k > r else 'retry-succeeded' if k else 'no-exception')
                    if 0 < k:
                        out.nontrivial('%s|%s|%d|%d' % (vname, verbose, r, k))
    return out


# ------------------------------------------------------------------------------------------------ cache: re-entrant first calls

def check_reentrant(case):
    """a freshly cached function whose body calls the cached function again (recursion): over the whole call sequence every argument is evaluated once"""
    from pyg_base import cache
    out = Out()
    seq = case['calls']
    evals = collections.Counter()
    box = {}

    def fib(n):
        evals[n] += 1
        return n if n < 2 else box['c'](n - 1) + box['c'](n - 2)
    box['c'] = cache(fib)
    ref = [0, 1]
    for i in range(2, 12):
        ref.append(ref[-1] + ref[-2])
    needed = set()
    for n in seq:
        out.sub()
        try:
            r = box['c'](n)
            out.call()
        except Exception as e:
            out.viol('cache-raised', 'cached fib: call sequence %s, call %d raised %s: %s' % (seq, n, type(e).__name__, e), reentrant=True)
            return out
        needed |= set(range(n + 1)) if n >= 2 else {n}
        if r != ref[n]:
            out.viol('cache-wrong-value', 'cached fib(%d) = %r in the call sequence %s' % (n, r, seq), reentrant=True)
        bad = {k: v for k, v in evals.items() if v != 1}
        if bad or set(evals) != needed:
            out.viol('cache-evaluation-count', 'cached recursive fib, call sequence %s up to fib(%d): evaluations per argument %s, expected exactly once for each of %s' % (
                seq, n, dict(sorted(evals.items())), sorted(needed)), reentrant=True, first=(n == seq[0]))
            return out
    # ---- a cached function that consumes its (list) argument: the combination is the one PASSED, remembered before f runs
    out.sub()
    taken = []

    def take(stack):
        taken.append(list(stack))
        return stack.pop()
    ct = cache(take)
    try:
        r1 = ct([1, 2, 3])
        r2 = ct([1, 2, 3])
        r3 = ct([1, 2])
        out.call(3)
        if (r1, r2, r3) != (3, 3, 2) or taken != [[1, 2, 3], [1, 2]]:
            out.viol('cache-evaluation-count', 'cached take(stack) = stack.pop(): take([1,2,3]), take([1,2,3]), take([1,2]) returned %r with evaluations on %r; expected (3, 3, 2) with '
                     'evaluations on [[1, 2, 3], [1, 2]]' % ((r1, r2, r3), taken), reentrant=False, mutating_argument=True)
    except Exception as e:
        out.viol('cache-raised', 'cached take(stack) raised %s: %s' % (type(e).__name__, e), reentrant=False, mutating_argument=True)
    out.cls('reentrant-%s' % ('deep-first' if seq[0] >= 2 else 'shallow-first'))
    if seq[0] >= 2:
        out.nontrivial()
    return out


# ------------------------------------------------------------------------------------------------ cache histories (E1)

CALLS = [
    ('f(1)', (1,), {}), ('f(1,1)', (1, 1), {}), ('f(1,b=1)', (1,), {'b': 1}), ('f(a=1)', (), {'a': 1}), ('f(a=1,b=1)', (), {'a': 1, 'b': 1}),
    ('f(b=1,a=1)', (), {'b': 1, 'a': 1}), ('f(2)', (2,), {}), ('f([1])', ([1],), {}), ("f({'x':1})", ({'x': 1},), {}), ("f('boom')", ('boom',), {}),
    ('f(1,2)', (1, 2), {}),
    # two keywords with DIFFERENT values in either spelling order: (a=1,b=2) and (b=2,a=1) are one combination, (b=1,a=2) is another
    ('f(a=1,b=2)', (), {'a': 1, 'b': 2}), ('f(b=2,a=1)', (), {'b': 2, 'a': 1}), ('f(b=1,a=2)', (), {'b': 1, 'a': 2}), ('f(a=2,b=1)', (), {'a': 2, 'b': 1}),
    ('f(3) -> None', (3,), {}), ('f(3,b=0) -> None', (3,), {'b': 0}),
    ('f(-1)', (-1,), {}), ('f(-2)', (-2,), {}),          # hash(-1) == hash(-2) in CPython: equal hashes are not equal arguments
    ("f({'x':1,'y':2})", ({'x': 1, 'y': 2},), {}), ("f({'y':1,'x':2})", ({'y': 1, 'x': 2},), {}), ("f({'y':2,'x':1})", ({'y': 2, 'x': 1},), {}),
]


def _canon(v):
    if isinstance(v, dict):
        return ['dict', sorted((k, _canon(x)) for k, x in v.items())]      # equal dicts are one argument value whatever their insertion order
    if isinstance(v, (list, tuple)):
        return [type(v).__name__, [_canon(x) for x in v]]
    return repr(v)


def _mkey(args, kw):
    return json.dumps([[_canon(a) for a in args], sorted((k, _canon(v)) for k, v in kw.items())])


class CacheBfs(BfsSuite):
    def __init__(self, depth):
        BfsSuite.__init__(self, 'cache_histories', depth,
                          rule='BFS over all call sequences on cache(f) from an alphabet of %d call spellings + clear_cache; state = set of cached keys; model: '
                               'f is evaluated iff the (positional, keyword) combination as passed is new, the first result is returned afterwards; '
                               'non-trivial = a call that hits an existing entry or follows clear_cache' % len(CALLS),
                          bounds=dict(calls=len(CALLS)))
        self.crosscheck_depth = 2

    def initial(self):
        return [[]]

    def ops(self, history):
        return [['call', i] for i in range(len(CALLS))] + [['clear']]

    def visit(self, history):
        from pyg_base import cache
        out = Out()
        count = [0]

        def f(a, b=1):
            count[0] += 1
            if a == 'boom':
                raise KeyError('boom')
            if a == 3:
                return None            # a legitimate result: it is cached like any other
            return ('r', _canon(a), b, count[0])
        g = cache(f)
        model = {}
        for step, op in enumerate(history):
            last = step == len(history) - 1
            if op[0] == 'clear':
                g.clear_cache()
                model = {}
                if last:
                    out.call()
                    out.cls('clear')
                continue
            name, args, kw = CALLS[op[1]]
            before = count[0]
            key = _mkey(args, kw)
            try:
                r = g(*[_cp(a) for a in args], **dict(kw))
                exc = None
            except Exception as e:
                r, exc = None, e
            evals = count[0] - before
            if args and args[0] == 'boom':
                if last:
                    out.call()
                    if not isinstance(exc, KeyError):
                        out.viol('cache-swallowed-exception', 'history %s: %s returned %r / raised %r, f raises KeyError' % (_h(history), name, r, exc))
                    out.cls('raise')
                continue
            hit = key in model
            if not hit:
                bound = dict(zip(('a', 'b'), args), **kw)
                model[key] = None if bound['a'] == 3 else ('r', _canon(bound['a']), bound.get('b', 1), before + 1)
            if last:
                out.call()
                if exc is not None:
                    out.viol('cache-raised', 'history %s: %s raised %s: %s' % (_h(history), name, type(exc).__name__, exc), call=name)
                    return out, None, False
                want_evals = 0 if hit else 1
                if evals != want_evals:
                    out.viol('cache-evaluation-count', 'history %s: %s evaluated f %d times, expected %d (%s)' % (
                        _h(history), name, evals, want_evals, 'this combination was already evaluated' if hit else 'a new combination'), call=name, hit=hit)
                if r != model[key]:
                    out.viol('cache-wrong-result', 'history %s: %s returned %r, the first result for this combination was %r' % (_h(history), name, r, model[key]), call=name, hit=hit)
                if hit or any(o[0] == 'clear' for o in history[:-1]):
                    out.nontrivial()
                out.cls('hit' if hit else 'miss')
        if out.v:
            return out, None, False
        return out, json.dumps(sorted(model)), True

    def replay(self, case):
        out, _, _ = self.visit(case['history'])
        return out


def _cp(a):
    return list(a) if isinstance(a, list) else dict(a) if isinstance(a, dict) else a


def _h(history):
    return [CALLS[o[1]][0] if o[0] == 'call' else 'clear_cache()' for o in history]


def suites(tier, seed):
    q = tier == 'quick'
    if q:
        gen = lambda: gen_programs(2)
        depth_txt = 'all stacks of <= 2 decorators'
    else:
        sub3 = set(i for i, s in enumerate(SIGS) if (s['p'], s['k']) in ((0, 0), (1, 0), (2, 1), (3, 3), (4, 2)))
        gen = lambda: gen_programs(3, sub3)
        depth_txt = 'all stacks of <= 2 decorators on every signature and all stacks of 3 on %d signatures' % len(sub3)
    return [
        Suite('programs', gen, check_program,
              rule='all 60 signatures (0..4 positional parameters x trailing defaults x +-*args x +-**kwargs) x every valid call (inspect.signature.bind) x 11 decorators (pd2np also built with exc=), '
                   '%s: result, getargspec, double wrapping, getcallargs / call_with_callargs, try_* fallbacks on a raising twin, kwargs_support keyword filtering; '
                   'non-trivial = calls mixing positional and keyword passing' % depth_txt,
              bounds=dict(signatures=len(SIGS), decorators=NDEC, stack_depth=2 if q else 3)),
        Suite('try_exceptions', gen_tries, check_tries,
              rule='%d exception objects (payloads: string, tuple, empty tuple, list, dict, none, several args, %%-patterns, errno pairs; KeyError .. OSError and a user class) x '
                   '{try_none, try_nan, try_zero, try_false, try_true, try_list, try_back} x 4 call spellings; try_value(f, repeat=r, value=V, verbose=v) for 5 values x '
                   'verbose in {None, False, True} x r in 0..2 x f failing its first k in 0..4 calls: result, number of calls of f, a mutable value is handed out as a copy; '
                   'non-trivial = f raised at least once' % len(EXCS),
              bounds=dict(exceptions=len(EXCS), values=len(TRY_VALUES), repeat_max=2, failures_max=4)),
        Suite('cache_reentrant', lambda: ({'calls': list(c)} for k in (1, 2, 3) for c in itertools.product(range(7), repeat=k)), check_reentrant,
              rule='a freshly cached recursive function (fib calling its cached self) x every sequence of <= 3 calls with arguments 0..6: values, and every argument evaluated '
                   'exactly once over the whole sequence (the first call is re-entrant before any cache entry exists); non-trivial = the first call recurses',
              bounds=dict(max_calls=3, max_argument=6)),
        CacheBfs(3 if q else 5),
    ]
