"""
C11 -- listby/unlist, groupby/ungroup and pivot/unpivot are lossless regroupings (DESIGN.md section 4, C11).

E2 suites:
  listby_groupby   every table of <= N rows with columns a, b (key candidates), c (row id) and f (a float payload with
                   NaN cells) x every key choice drawn from {a, b, c} (one, two -- in both orders -- and three key
                   columns, spelled as *args and as a list) and listby() with no argument.
                   family 'one': a ranges over ALL sequences of a 6-value mixed-type domain, b is a fixed mixed-type
                   function of the row number;  family 'two': (a, b) ranges over all sequences of a 3x3 domain.
  pivot            every table of <= N rows over small x / y domains x x in {'a', ('a','b')} x y a string- / an
                   int-valued column x (z, agg) combinations; xyz / pivot and unpivot.

Oracle: a list-of-records model that groups rows by key tuple with Python == (1 == 1.0 is one key, None only equals
None).  It never calls pyg_base, except for pyg_base.cmp to state "stably sorted by the keys" (C07 establishes cmp).
"""
import datetime
import functools
import itertools

from mc.engine import Suite, Out
from mc.codec import cell_eq, is_nan, show

PROPERTY = 'C11'
ASSUMPTIONS = [
    'listby / groupby key columns never hold NaN; the pivot x key may be NaN (a fresh float object per row, one key); NaN also occurs in the payload column f',
    'which representative of a class of ==-equal keys (1 / 1.0) is shown in the key cell is unspecified: keys and rows are compared with == (NaN-aware), never by repr or type',
    'column order of every result is unspecified (column SETS and row dicts are compared); the row order of groupby / pivot / unpivot results is unspecified '
    '(compared as sets of groups / multisets of rows); the row order of listby follows from unlist() == stable sort',
    'bool keys are excluded (True == 1); y values of one pivot are all str or all int and never collide with a column name; z is never None',
    '"stably sorted by the keys" means the stable order under pyg_base.cmp on the key tuples (C07 checks cmp and dictable.sort); the oracle does not hard-code the order between types',
    'listby() with no argument is checked on the NaN-free columns a, b, c only (by = all columns, so f would be a NaN key); groupby() on all columns raises by design and is not called',
    'ungroup() of the groupby of an EMPTY table is only required to have no rows (its columns are not compared)',
    'x is passed to xyz as a str, a list or a tuple of names, to unpivot as a str or a list only (its documented forms; a tuple is not subtracted from the columns there)',
    'pivot with agg=None holds the list of z values in original row order; aggregators are applied to that list in the listed order',
]

_DT = datetime.datetime(2000, 1, 1)
KEY6 = [None, 1, 1.0, 2, 'x', _DT]               # family 'one': column a
B_FIX = [1, 'x', 1.0, 1, 'x', 1.0]               # family 'one': column b by row number (mixed types, 1 == 1.0 collide)
A3 = [1, 1.0, 'x']                               # family 'two'
B3 = [None, 1, _DT]
ALL = ['a', 'b', 'c', 'f']

KEYSETS = [('a',), ('b',), ('c',), ('a', 'b'), ('b', 'a'), ('a', 'c'), ('c', 'a'), ('b', 'c'), ('c', 'b'), ('a', 'b', 'c'), ('c', 'b', 'a')]
LIST_SPELLED = [('a',), ('a', 'b'), ('b', 'a'), ('c', 'b', 'a')]
CHOICES = [(k, 'args') for k in KEYSETS] + [(k, 'list') for k in LIST_SPELLED]          # family 'one'
CHOICES_TWO = [(('a', 'b'), 'args'), (('b', 'a'), 'list'), (('a',), 'args'), (('b',), 'list')]    # family 'two' (keys holding the row id c are all-distinct: family 'one' has them)


# ------------------------------------------------------------------------------------------------ helpers

def _keyeq(k1, k2):
    """Python == on key tuples; None only equals None; a NaN or a non-scalar never equals anything"""
    try:
        if len(k1) != len(k2):
            return False
        for x, y in zip(k1, k2):
            if is_nan(x) and is_nan(y):
                continue                      # NaN keys are one key whatever the identity of the float objects (pivot x keys, see PA)
            if (x is None) != (y is None) or is_nan(x) or is_nan(y) or isinstance(x, (list, tuple, dict)) or isinstance(y, (list, tuple, dict)):
                return False
            if not bool(x == y):
                return False
        return True
    except Exception:
        return False


def _deep_eq(a, b):
    la, lb = isinstance(a, (list, tuple)), isinstance(b, (list, tuple))
    if la or lb:
        return la and lb and len(a) == len(b) and all(_deep_eq(x, y) for x, y in zip(a, b))
    if (a is None) != (b is None):
        return False
    return cell_eq(a, b)


def _row_eq(r1, r2):
    return set(r1.keys()) == set(r2.keys()) and all(_deep_eq(r1[k], r2[k]) for k in r1)


def _multiset_eq(A, B):
    if len(A) != len(B):
        return False
    rest = list(B)
    for r in A:
        for j, s in enumerate(rest):
            if _row_eq(r, s):
                del rest[j]
                break
        else:
            return False
    return True


def _rows(t):
    """(column names, list of row dicts) of a result table, read through the dict interface only"""
    colsd = {k: list(v) for k, v in t.items()}
    n = len(t)
    for k, v in colsd.items():
        if len(v) != n:
            raise ValueError('column %r has %d cells in a table of %d rows' % (k, len(v), n))
    return list(colsd), [{k: colsd[k][i] for k in colsd} for i in range(n)]


def _inner(x):
    if isinstance(x, list):
        return list(x)
    if isinstance(x, dict):
        return {k: list(v) for k, v in x.items()}
    return None


def _snap(t):
    return {k: [(x, _inner(x)) for x in v] for k, v in t.items()}


def _unchanged(t, snap):
    if set(t.keys()) != set(snap):
        return False
    for k, v in t.items():
        if len(v) != len(snap[k]):
            return False
        for x, (y, inner) in zip(v, snap[k]):
            if x is not y:
                return False
            if isinstance(inner, list):
                if len(x) != len(inner) or any(p is not q for p, q in zip(x, inner)):
                    return False
            elif isinstance(inner, dict):
                if set(x.keys()) != set(inner):
                    return False
                for kk, vv in x.items():
                    if len(vv) != len(inner[kk]) or any(p is not q for p, q in zip(vv, inner[kk])):
                        return False
    return True


_CMP = {}


def _kcmp(x, y):
    """pyg_base.cmp on two key tuples, memoised per process (cmp is pure; the memo key keeps 1 and 1.0 apart)"""
    k = (tuple((type(v).__name__, v) for v in x), tuple((type(v).__name__, v) for v in y))
    r = _CMP.get(k)
    if r is None:
        from pyg_base import cmp
        r = _CMP[k] = cmp(x, y)
    return r


def _stable_order(keys):
    def c(i, j):
        r = _kcmp(keys[i], keys[j])
        return r if r else (i > j) - (i < j)
    return sorted(range(len(keys)), key=functools.cmp_to_key(c))


def _groups(keys):
    """model: [key tuple of the first row, row ids in original order] per distinct key, key equality = =="""
    groups = []
    for i, k in enumerate(keys):
        for g in groups:
            if _keyeq(g[0], k):
                g[1].append(i)
                break
        else:
            groups.append([k, [i]])
    return groups


def _ntypes(keys):
    return max([len(set(type(k[j]).__name__ for k in keys)) for j in range(len(keys[0]))]) if keys else 0


def _match_groups(rows, key, groups):
    """map each result row to a distinct model group by its key cells; returns (list of group indices, None) or (None, text)"""
    used = set()
    res = []
    for r in rows:
        kk = tuple(r[k] for k in key)
        hit = [gi for gi, g in enumerate(groups) if _keyeq(g[0], kk)]
        if not hit:
            return None, 'a row with key %s although the distinct keys are %s' % (show(kk), show([g[0] for g in groups]))
        if hit[0] in used:
            return None, 'key %s occurs in two rows' % show(kk)
        used.add(hit[0])
        res.append(hit[0])
    return res, None


# ------------------------------------------------------------------------------------------------ listby / groupby

KCASE = ['x', 'X', 'y', None, 'Y']                   # family 'case'
KINF = [float('-inf'), float('inf'), 1, None]       # family 'inf': infinities are ordinary float keys (two distinct ones)


def gen_tables(maxrows):
    for n in range(maxrows + 1):
        for xs in itertools.product(range(len(KEY6)), repeat=n):
            yield {'t': 'one', 'a': list(xs)}
    for n in range(1, min(maxrows, 4) + 1):
        for xs in itertools.product(range(len(KINF)), repeat=n):
            if any(i < 2 for i in xs):
                yield {'t': 'inf', 'a': list(xs)}
    for n in range(2, min(maxrows, 4) + 1):
        for xs in itertools.product(range(len(KCASE)), repeat=n):
            if 0 in xs and 1 in xs:
                yield {'t': 'case', 'a': list(xs)}          # string keys that differ only in letter case are different keys
    for n in range(1, maxrows + 1):
        for xs in itertools.product(range(9), repeat=n):
            yield {'t': 'two', 'ab': list(xs)}


def check_regroup(case):
    from pyg_base import dictable
    out = Out()
    if case['t'] in ('one', 'inf', 'case'):
        a = [{'one': KEY6, 'inf': KINF, 'case': KCASE}[case['t']][i] for i in case['a']]
        b = [B_FIX[i] for i in range(len(a))]
    else:
        a = [A3[i // 3] for i in case['ab']]
        b = [B3[i % 3] for i in case['ab']]
    n = len(a)
    cols = dict(a=a, b=b, c=list(range(n)), f=[float('nan') if i % 2 else i + 0.5 for i in range(n)])      # a fresh NaN object per cell
    rows = [{k: cols[k][i] for k in ALL} for i in range(n)]
    tdesc = 'a=%s b=%s c=%s f=%s' % (show(a), show(b), cols['c'], show(cols['f']))

    def build(names=ALL):
        return dictable(**{k: list(cols[k]) for k in names})

    orders = {}

    for key, spelling in (CHOICES if case['t'] == 'one' else CHOICES_TWO):          # families inf / case / two: the small menu
        out.sub()
        nonkey = [k for k in ALL if k not in key]
        arg = '*%r' % (key,) if spelling == 'args' else repr(list(key))
        sig = dict(nkeys=len(key), spelling=spelling)
        keys = [tuple(cols[k][i] for k in key) for i in range(n)]
        groups = _groups(keys)
        if key not in orders:
            orders[key] = _stable_order(keys)
        order = orders[key]
        # classes / non-trivial
        ng = len(groups)
        nt = _ntypes(keys)
        if n == 0:
            out.cls('empty')
        elif ng == n:
            out.cls('all-distinct')
        elif ng == 1:
            out.cls('all-equal')
        else:
            out.cls('dup+distinct')
        if nt > 1:
            out.cls('mixed-type')
        if (1 < ng < n) or nt > 1:
            out.nontrivial('%s/%s' % (','.join(key), spelling))

        def call(t, method):
            return getattr(t, method)(*key) if spelling == 'args' else getattr(t, method)(list(key))

        d = build()
        snap = _snap(d)

        # ---------------------------------------------------------------- listby / unlist
        L = None
        try:
            L = call(d, 'listby')
            out.call()
        except Exception as e:
            out.viol('listby-raised', 'listby(%s) on %s raised %s: %s' % (arg, tdesc, type(e).__name__, e), op='listby', **sig)
        if L is not None:
            _check_listby(out, L, d, key, nonkey, arg, tdesc, sig, cols, rows, groups, order, n, spelling == 'args' and case['t'] == 'one', call)

        # ---------------------------------------------------------------- groupby / ungroup
        G = None
        try:
            G = call(d, 'groupby')
            out.call()
        except Exception as e:
            out.viol('groupby-raised', 'groupby(%s) on %s raised %s: %s' % (arg, tdesc, type(e).__name__, e), op='groupby', **sig)
        if G is not None:
            _check_groupby(out, G, key, nonkey, arg, tdesc, sig, rows, groups, n)

        if not _unchanged(d, snap):
            out.viol('operand-mutated', 'listby/groupby/sort(%s) changed the table %s they were called on' % (arg, tdesc), op='listby/groupby', **sig)

    # ---------------------------------------------------------------- a non-key column that is itself called 'grp', and a custom grp label naming an existing column
    if n and case['t'] == 'two':
        for variant in ('column-called-grp', 'label-names-a-column'):
            out.sub()
            sig = dict(nkeys=1, spelling=variant)
            try:
                if variant == 'column-called-grp':
                    d = dictable(a=list(a), grp=list(cols['c']), f=list(cols['f']))
                    names = {'grp': 'c', 'f': 'f'}            # column of the sub-table -> column of `rows`
                    G = d.groupby('a')
                    label = 'grp'
                    U = G.ungroup()
                else:
                    d = build()
                    names = {'b': 'b', 'c': 'c', 'f': 'f'}
                    G = d.groupby('a', grp='c')
                    label = 'c'
                    U = G.ungroup('c')
                out.call(2)
                groups = _groups([(x,) for x in a])
                kg, rg = _rows(G)
                if set(kg) != {'a', label} or len(rg) != len(groups):
                    out.viol('groupby-columns', "groupby('a'%s) on a table with columns %s: result columns %s with %d rows, expected ['a', %r] with %d rows" % (
                        '' if variant == 'column-called-grp' else ", grp='c'", list(d.keys()), kg, len(rg), label, len(groups)), op='groupby', **sig)
                    continue
                gis, err = _match_groups(rg, ('a',), groups)
                if err:
                    out.viol('groupby-wrong-keys', '%s: %s' % (variant, err), op='groupby', **sig)
                    continue
                bad = None
                for r, gi in zip(rg, gis):
                    ks, rs = _rows(r[label])
                    exp = [{k: rows[i][src] for k, src in names.items()} for i in groups[gi][1]]
                    if set(ks) != set(names) or len(rs) != len(exp) or not all(_row_eq(g, e) for g, e in zip(rs, exp)):
                        bad = 'key %s: sub-table columns %s rows %s, expected columns %s rows %s' % (show(groups[gi][0]), ks, show(rs), sorted(names), show(exp))
                        break
                if bad:
                    out.viol('groupby-wrong-subtable', "%s, a=%s: %s" % (variant, show(a), bad), op='groupby', **sig)
                    continue
                ku, ru = _rows(U)
                want = [dict({'a': rows[i]['a']}, **{k: rows[i][src] for k, src in names.items()}) for i in range(n)]
                if set(ku) != {'a'} | set(names) or not _multiset_eq(ru, want):
                    out.viol('ungroup-not-original', '%s, a=%s: ungroup gives columns %s rows %s, expected the original rows %s' % (variant, show(a), ku, show(ru, 300), show(want, 300)),
                             op='ungroup', **sig)
            except Exception as e:
                out.viol('groupby-raised', '%s on a=%s raised %s: %s' % (variant, show(a), type(e).__name__, e), op='groupby', **sig)

    # ---------------------------------------------------------------- a key column whose NAME contains the names of the other columns ('xbcf' next to b, c, f)
    if n and case['t'] == 'two':
        out.sub()
        sig = dict(nkeys=1, spelling='key-name-contains-others')
        try:
            d = dictable(xbcf=list(a), b=list(cols['b']), c=list(cols['c']), f=list(cols['f']))
            L = d.listby('xbcf')
            U = L.unlist()
            G = d.groupby('xbcf')
            UG = G.ungroup()
            out.call(4)
            kl, rl = _rows(L)
            ku, ru = _rows(U)
            kg, rg = _rows(UG)
            keys1 = [(x,) for x in a]
            order1 = _stable_order(keys1)
            want = [dict(xbcf=a[i], b=cols['b'][i], c=cols['c'][i], f=cols['f'][i]) for i in range(n)]
            if set(kl) != {'xbcf', 'b', 'c', 'f'} or len(rl) != len(_groups(keys1)):
                out.viol('listby-columns', "listby('xbcf') on a table with columns xbcf, b, c, f (xbcf=%s): result columns %s with %d rows" % (show(a), kl, len(rl)), op='listby', **sig)
            elif set(ku) != {'xbcf', 'b', 'c', 'f'} or len(ru) != n or not all(_row_eq(g, want[i]) for g, i in zip(ru, order1)):
                out.viol('unlist-not-sorted-original', "listby('xbcf').unlist() with xbcf=%s: columns %s rows %s" % (show(a), ku, show(ru, 300)), op='unlist', **sig)
            elif set(kg) != {'xbcf', 'b', 'c', 'f'} or not _multiset_eq(rg, want):
                out.viol('ungroup-not-original', "groupby('xbcf').ungroup() with xbcf=%s: columns %s rows %s" % (show(a), kg, show(rg, 300)), op='ungroup', **sig)
        except Exception as e:
            out.viol('listby-raised', "listby / groupby('xbcf') on xbcf=%s raised %s: %s" % (show(a), type(e).__name__, e), op='listby', **sig)

    # ---------------------------------------------------------------- the SAME table object regrouped again after a key cell was overwritten in place
    if n >= 2 and not _keyeq((a[0],), (a[n - 1],)):
        for key in (('a',), ('a', 'b')):
            out.sub()
            d = build()
            sig = dict(nkeys=len(key), spelling='args')
            try:
                d.listby(*key), d.groupby(*key)            # first regrouping of this object
                d['a'][n - 1] = a[0]                       # the column list is the table's own storage
                if d['a'][n - 1] is not a[0]:
                    continue                               # (the column handed out is a copy: nothing was edited)
                fresh = dictable(**{k: list(v) for k, v in d.items()})
                got = [_rows(d.listby(*key))[1], _rows(d.groupby(*key).ungroup())[1], [len(g) for g in d.groupby(*key)['grp']]]
                want = [_rows(fresh.listby(*key))[1], _rows(fresh.groupby(*key).ungroup())[1], [len(g) for g in fresh.groupby(*key)['grp']]]
                out.call(8)
            except Exception as e:
                out.viol('regroup-after-edit-raised', 'listby/groupby(%s) on %s, again after a[%d] = %s was written in place: %s: %s'
                         % (key, tdesc, n - 1, show(a[0]), type(e).__name__, e), op='edit', **sig)
                continue
            for what, g, w in zip(('listby', 'groupby.ungroup', 'groupby sizes'), got, want):
                same = (g == w) if what == 'groupby sizes' else (len(g) == len(w) and all(_row_eq(x, y) for x, y in zip(g, w)))
                if not same:
                    out.viol('stale-after-edit', '%s(%s) on the table %s regrouped once, then a[%d] = %s written in place: got %s, a fresh table with the same cells gives %s'
                             % (what, key, tdesc, n - 1, show(a[0]), show(g, 300), show(w, 300)), op='edit', **sig)
                    break
            out.nontrivial('edit/%d' % len(key))

    # ---------------------------------------------------------------- listby() with no argument: by = all columns (NaN-free a, b, c)
    out.sub()
    names = ['a', 'b', 'c']
    d3 = build(names)
    snap = _snap(d3)
    rows3 = [{k: cols[k][i] for k in names} for i in range(n)]
    try:
        key = tuple(d3.keys())
        L = d3.listby()
        out.call()
        U = L.unlist()
        out.call()
    except Exception as e:
        out.viol('listby-raised', 'listby() / unlist() on %s raised %s: %s' % (tdesc, type(e).__name__, e), op='listby', nkeys=0, spelling='none')
        return out
    if sorted(key) != names:
        out.viol('result-broken', 'keys() of dictable(a=, b=, c=) is %r' % (key,), op='keys')
        return out
    order = _stable_order([tuple(cols[k][i] for k in key) for i in range(n)])
    expect = [rows3[i] for i in order]
    for what, t in (('listby()', L), ('listby().unlist()', U)):
        try:
            kt, rt = _rows(t)
        except Exception as e:
            out.viol('result-broken', '%s on %s: %s: %s' % (what, tdesc, type(e).__name__, e), op='listby', nkeys=0)
            continue
        if set(kt) != set(names) or len(rt) != n or not all(_row_eq(g, e) for g, e in zip(rt, expect)):
            out.viol('listby-noarg-wrong', '%s on %s (by = all columns %s; every row is its own key): expected rows in c-order %s, got columns %s c=%s'
                     % (what, tdesc, key, order, kt, show([r.get('c') for r in rt])), op=what, nkeys=0, spelling='none')
    if not _unchanged(d3, snap):
        out.viol('operand-mutated', 'listby() changed the table %s it was called on' % tdesc, op='listby', nkeys=0, spelling='none')
    if n > 1:
        out.nontrivial('noarg')
    return out


def _check_listby(out, L, d, key, nonkey, arg, tdesc, sig, cols, rows, groups, order, n, with_sort, call):
    try:
        kl, rl = _rows(L)
    except Exception as e:
        out.viol('result-broken', 'listby(%s) on %s: reading the result raised %s: %s' % (arg, tdesc, type(e).__name__, e), op='listby', **sig)
        return
    ok = True
    if set(kl) != set(ALL):
        out.viol('listby-columns', 'listby(%s) on %s: expected columns %s, got %s' % (arg, tdesc, ALL, kl), op='listby', **sig)
        return
    if n:
        if len(rl) != len(groups):
            out.viol('listby-group-count', 'listby(%s) on %s: expected one row per distinct key %s, got %d rows with keys %s'
                     % (arg, tdesc, show([g[0] for g in groups]), len(rl), show([tuple(r[k] for k in key) for r in rl])), op='listby', **sig)
            ok = False
        else:
            gis, err = _match_groups(rl, key, groups)
            if err:
                out.viol('listby-wrong-keys', 'listby(%s) on %s: %s' % (arg, tdesc, err), op='listby', **sig)
                ok = False
            else:
                for r, gi in zip(rl, gis):
                    ids = groups[gi][1]
                    for col in nonkey:
                        exp = [cols[col][i] for i in ids]
                        if not isinstance(r[col], (list, tuple)) or not _deep_eq(list(r[col]), exp):
                            out.viol('listby-wrong-values', 'listby(%s) on %s: key %s column %s: expected the values of rows %s in original order %s, got %s'
                                     % (arg, tdesc, show(groups[gi][0]), col, ids, show(exp), show(r[col])), op='listby', **sig)
                            ok = False
                            break
                    if not ok:
                        break
    elif len(rl):
        out.viol('listby-group-count', 'listby(%s) of the empty table has %d rows' % (arg, len(rl)), op='listby', empty=True, **sig)
        ok = False
    # ---- unlist
    snapL = _snap(L)
    try:
        U = L.unlist()
        out.call()
        ku, ru = _rows(U)
    except Exception as e:
        out.viol('unlist-raised', 'listby(%s).unlist() on %s raised %s: %s' % (arg, tdesc, type(e).__name__, e), op='unlist', **sig)
        return
    if not _unchanged(L, snapL):
        out.viol('operand-mutated', 'unlist() changed the listby(%s) table of %s' % (arg, tdesc), op='unlist', **sig)
    if not ok:
        return
    expect = [rows[i] for i in order]
    if (n and set(ku) != set(ALL)) or len(ru) != n or not all(_row_eq(g, e) for g, e in zip(ru, expect)):
        out.viol('unlist-not-sorted-original', 'listby(%s).unlist() on %s: expected the original rows stably sorted by the key, c-order %s; got columns %s rows %s'
                 % (arg, tdesc, order, ku, show(ru, 500)), op='unlist', **sig)
        return
    if with_sort:
        try:
            S = call(d, 'sort')
            out.call()
            ks, rs = _rows(S)
        except Exception as e:
            out.viol('sort-raised', 'sort(%s) on %s raised %s: %s' % (arg, tdesc, type(e).__name__, e), op='sort', **sig)
            return
        if len(rs) != len(ru) or not all(_row_eq(g, e) for g, e in zip(ru, rs)):
            out.viol('unlist-differs-from-sort', 'on %s: listby(%s).unlist() has c=%s but sort(%s) has c=%s'
                     % (tdesc, arg, [r.get('c') for r in ru], arg, [r.get('c') for r in rs]), op='unlist/sort', **sig)


def _check_groupby(out, G, key, nonkey, arg, tdesc, sig, rows, groups, n):
    try:
        kg, rg = _rows(G)
    except Exception as e:
        out.viol('result-broken', 'groupby(%s) on %s: reading the result raised %s: %s' % (arg, tdesc, type(e).__name__, e), op='groupby', **sig)
        return
    ok = True
    if n:
        if set(kg) != set(key) | {'grp'}:
            out.viol('groupby-columns', 'groupby(%s) on %s: expected columns %s, got %s' % (arg, tdesc, list(key) + ['grp'], kg), op='groupby', **sig)
            return
        if len(rg) != len(groups):
            out.viol('groupby-group-count', 'groupby(%s) on %s: expected one sub-table per distinct key %s, got %d rows with keys %s'
                     % (arg, tdesc, show([g[0] for g in groups]), len(rg), show([tuple(r[k] for k in key) for r in rg])), op='groupby', **sig)
            ok = False
        else:
            gis, err = _match_groups(rg, key, groups)
            if err:
                out.viol('groupby-wrong-keys', 'groupby(%s) on %s: %s' % (arg, tdesc, err), op='groupby', **sig)
                ok = False
            else:
                total = 0
                for r, gi in zip(rg, gis):
                    ids = groups[gi][1]
                    exp = [{k: rows[i][k] for k in nonkey} for i in ids]
                    try:
                        if not isinstance(r['grp'], dict):
                            raise TypeError('the grp cell is a %s' % type(r['grp']).__name__)
                        ks, rs = _rows(r['grp'])
                        total += len(r['grp'])
                    except Exception as e:
                        out.viol('groupby-wrong-subtable', 'groupby(%s) on %s: key %s: %s: %s' % (arg, tdesc, show(groups[gi][0]), type(e).__name__, e), op='groupby', **sig)
                        ok = False
                        break
                    if set(ks) != set(nonkey) or len(rs) != len(exp) or not all(_row_eq(g, e) for g, e in zip(rs, exp)):
                        out.viol('groupby-wrong-subtable', 'groupby(%s) on %s: key %s: expected the sub-table of rows %s (columns %s, original order) %s, got columns %s rows %s'
                                 % (arg, tdesc, show(groups[gi][0]), ids, nonkey, show(exp), ks, show(rs)), op='groupby', **sig)
                        ok = False
                        break
                if ok and total != n:
                    out.viol('groupby-sizes', 'groupby(%s) on %s: sub-table sizes add up to %d, the table has %d rows' % (arg, tdesc, total, n), op='groupby', **sig)
                    ok = False
    elif len(rg):
        out.viol('groupby-group-count', 'groupby(%s) of the empty table has %d rows' % (arg, len(rg)), op='groupby', empty=True, **sig)
        ok = False
    # ---- ungroup
    snapG = _snap(G)
    try:
        UG = G.ungroup()
        out.call()
        ku, ru = _rows(UG)
    except Exception as e:
        out.viol('ungroup-raised', 'groupby(%s).ungroup() on %s raised %s: %s' % (arg, tdesc, type(e).__name__, e), op='ungroup', **sig)
        return
    if not _unchanged(G, snapG):
        out.viol('operand-mutated', 'ungroup() changed the groupby(%s) table of %s' % (arg, tdesc), op='ungroup', **sig)
    if not ok:
        return
    if (n and set(ku) != set(ALL)) or not _multiset_eq(ru, rows):
        out.viol('ungroup-not-original', 'groupby(%s).ungroup() on %s: expected the original rows as a multiset; got columns %s rows %s'
                 % (arg, tdesc, ku, show(ru, 500)), op='ungroup', **sig)


# ------------------------------------------------------------------------------------------------ pivot / unpivot

PA = [1, 1.0, 'x', 'NAN']     # x column a (1 and 1.0 are one key; 'NAN' = a fresh float('nan') object in every row: still ONE key)
PB = [None, 2]                # x column b
YS = ['p', 'q']               # the string-valued y column
YI = [1, 2]                   # the int-valued y column


def _last(v):
    return v[-1]


def _keep(v):
    return v          # an aggregator that hands its argument on: every cell keeps ITS OWN list of z values


AGGS = {'none': None, 'last': _last, 'sum': sum, 'len': len, 'sorted+last': [sorted, _last], 'keep': _keep}
ZAGG = [('c', 'none'), ('c', 'last'), ('c', 'sum'), ('c', 'len'), ('c', 'sorted+last'), ('c', 'keep'), ('f', 'none'), ('f', 'last'), ('f', 'len')]
# (y column, z column, agg): family x1 runs the whole menu on the string-valued y and three entries on the int-valued y (the labelling
# of y does not depend on agg); family x2 (the same code after the key tuple is built) runs five
COMBOS_X1 = [('ys', z, g) for z, g in ZAGG] + [('yi', 'c', 'none'), ('yi', 'c', 'last'), ('yi', 'f', 'last')]
COMBOS_X2 = [('ys', 'c', 'none'), ('ys', 'c', 'last'), ('ys', 'c', 'sum'), ('ys', 'f', 'last'), ('yi', 'c', 'last'), ('ys', 'c', 'keep')]


def gen_pivots(rows_x1, rows_x2, wide):
    """family x1: x = 'a', (a, y) over 3 x 2 values per row, b a fixed function of the row number;
       family x2: x = ('a','b'), (a, b, y) over |A| x 2 x 2 values per row (A = all of PA when wide, else [1, 1.0])"""
    for n in range(rows_x1 + 1):
        for xs in itertools.product(range(8), repeat=n):
            yield {'x': 'a', 'a': [i // 2 for i in xs], 'b': [i % 2 for i in range(n)], 'y': [i % 2 for i in xs]}
    na = 3 if wide else 2
    for n in range(rows_x2 + 1):
        for xs in itertools.product(range(na * 4), repeat=n):
            yield {'x': 'ab', 'a': [i // 4 for i in xs], 'b': [(i // 2) % 2 for i in xs], 'y': [i % 2 for i in xs]}


def check_pivot(case):
    from pyg_base import dictable, last
    out = Out()
    # NaN x keys are ONE key whatever float objects carry them: even rows share one NaN object, odd rows get a fresh one each (rows of one key keep their order)
    _shared_nan = float('nan')
    a = [(_shared_nan if pos % 2 == 0 else float('nan')) if PA[i] == 'NAN' else PA[i] for pos, i in enumerate(case['a'])]
    b = [PB[i] for i in case['b']]
    n = len(a)
    # in the one-key family the key column carries a name of which every y label ('p', 'q', '1', '2') is a substring: labels are turned into
    # column names, so anything that handles the key NAME as text (substring / prefix tests) must not swallow them
    A = 'kpq12' if case['x'] == 'a' else 'a'
    cols = {A: a, 'b': b, 'ys': [YS[i] for i in case['y']], 'yi': [YI[i] for i in case['y']], 'c': list(range(n)),
            'f': [float('nan') if i % 2 else i + 0.5 for i in range(n)]}
    tdesc = ' '.join('%s=%s' % (k, show(v)) for k, v in cols.items())
    xcols = [A] if case['x'] == 'a' else ['a', 'b']
    xspellings = [(A, repr(A))] if case['x'] == 'a' else [(['a', 'b'], "['a','b']"), (('a', 'b'), "('a','b')")]
    xkeys = [tuple(cols[k][i] for k in xcols) for i in range(n)]
    groups = _groups(xkeys)

    def build():
        return dictable(**{k: list(v) for k, v in cols.items()})

    for ci, (ycol, zcol, aggname) in enumerate(COMBOS_X1 if case['x'] == 'a' else COMBOS_X2):
        out.sub()
        xarg, xname = xspellings[ci % len(xspellings)]
        xlist = list(xarg) if isinstance(xarg, tuple) else xarg          # unpivot documents "str / list of strings"
        agg = AGGS[aggname]
        method = 'pivot' if zcol == 'f' else 'xyz'
        label = "%s(%s, '%s', '%s', %s) on %s" % (method, xname, ycol, zcol, aggname, tdesc)
        sig = dict(x=case['x'], agg=aggname)
        # ---- model
        yvals = []
        for v in cols[ycol]:
            if v not in yvals:
                yvals.append(v)
        cells = {}
        for gi, g in enumerate(groups):
            for i in g[1]:
                cells.setdefault((gi, yvals.index(cols[ycol][i])), []).append(i)
        expected = {}
        for gv, ids in cells.items():
            value = [cols[zcol][i] for i in ids]
            for fn in ([] if agg is None else agg if isinstance(agg, list) else [agg]):
                value = fn(value)
            expected[gv] = value
        holes = len(groups) * len(yvals) - len(cells)
        multi = any(len(ids) > 1 for ids in cells.values())
        out.cls('pivot-empty' if n == 0 else 'pivot-agg+holes' if multi and holes else 'pivot-agg' if multi else 'pivot-holes' if holes else 'pivot-dense')
        if multi or holes:
            out.nontrivial(ci)
        # ---- implementation
        d = build()
        snap = _snap(d)
        try:
            P = getattr(d, method)(xarg, ycol, zcol, list(agg) if isinstance(agg, list) else agg)
            out.call()
            kp, rp = _rows(P)
        except Exception as e:
            if n == 0:          # one signature for the empty table, whatever x / agg
                out.viol('pivot-raised', '%s raised %s: %s (expected: a pivot table with no rows)' % (label, type(e).__name__, e), op='xyz', empty=True)
            else:
                out.viol('pivot-raised', '%s raised %s: %s' % (label, type(e).__name__, e), op='xyz', empty=False, **sig)
            continue
        if not _unchanged(d, snap):
            out.viol('operand-mutated', '%s changed the table it was called on' % label, op='xyz', **sig)
        labels = [k for k in kp if k not in xcols]
        lab = {}
        for vi, v in enumerate(yvals):
            cands = [L for L in labels if L == v or L == str(v)]
            if len(cands) == 1:
                lab[vi] = cands[0]
        if any(k not in kp for k in xcols) or len(lab) != len(yvals) or len(labels) != len(yvals):
            out.viol('pivot-columns', '%s: expected the columns %s plus one column per y value %s, got %s' % (label, xcols, yvals, kp), op='xyz', **sig)
            continue
        if len(rp) != len(groups):
            out.viol('pivot-row-count', '%s: expected one row per distinct x key %s, got %d rows with keys %s'
                     % (label, show([g[0] for g in groups]), len(rp), show([tuple(r[k] for k in xcols) for r in rp])), op='xyz', **sig)
            continue
        gis, err = _match_groups(rp, xcols, groups)
        if err:
            out.viol('pivot-wrong-keys', '%s: %s' % (label, err), op='xyz', **sig)
            continue
        bad = False
        for r, gi in zip(rp, gis):
            for vi, v in enumerate(yvals):
                got = r[lab[vi]]
                if (gi, vi) in expected:
                    exp = expected[gi, vi]
                    if got is None or not _deep_eq(got, exp):
                        out.viol('pivot-wrong-cell', '%s: cell (x=%s, y=%s): expected %s (z of rows %s%s), got %s'
                                 % (label, show(groups[gi][0]), show(v), show(exp), cells[gi, vi], '' if agg is None else ' aggregated by ' + aggname, show(got)),
                                 op='xyz', **sig)
                        bad = True
                elif got is not None:
                    out.viol('pivot-hole-not-none', '%s: cell (x=%s, y=%s) has no row, expected None, got %s' % (label, show(groups[gi][0]), show(v), show(got)), op='xyz', **sig)
                    bad = True
                if bad:
                    break
            if bad:
                break
        if bad:
            continue
        # ---- y given as a FORMULA of the y column (lambda ys: ys): the same pivot, and the table it was called on stays what it was
        if ycol == 'ys' and n and not case.get('_ydone'):
            case['_ydone'] = True          # once per table (the first combination on the string-valued y column)
            d2 = build()
            snap2 = _snap(d2)
            try:
                P2 = getattr(d2, method)(xarg, lambda ys: ys, zcol, list(agg) if isinstance(agg, list) else agg)
                out.call()
                k2, r2 = _rows(P2)
                if set(k2) != set(kp) or not _multiset_eq(r2, rp):
                    out.viol('pivot-wrong-cell', '%s with y = lambda ys: ys: columns %s rows %s, the named-column spelling gives columns %s rows %s' % (label, k2, show(r2, 300), kp, show(rp, 300)),
                             op='xyz', yform='callable', **sig)
            except Exception as e:
                out.viol('pivot-raised', '%s with y = lambda ys: ys raised %s: %s' % (label, type(e).__name__, e), op='xyz', empty=False, yform='callable', **sig)
            if not _unchanged(d2, snap2):
                out.viol('operand-mutated', '%s with y = lambda ys: ys changed the table it was called on: columns now %s' % (label, list(d2.keys())), op='xyz', yform='callable', **sig)
        # ---- unpivot, then drop the rows whose z is None
        snapP = _snap(P)
        try:
            U = P.unpivot(xlist, ycol, zcol)
            out.call()
            ku, ru = _rows(U)
        except Exception as e:
            out.viol('unpivot-raised', '%s then unpivot raised %s: %s' % (label, type(e).__name__, e), op='unpivot', **sig)
            continue
        if not _unchanged(P, snapP):
            out.viol('operand-mutated', '%s: unpivot changed the pivot table' % label, op='unpivot', **sig)
        want = []
        for (gi, vi), value in expected.items():
            r = dict(zip(xcols, groups[gi][0]))
            r[ycol] = lab[vi]
            r[zcol] = value
            want.append(r)
        if n and set(ku) != set(xcols) | {ycol, zcol}:
            out.viol('unpivot-columns', '%s then unpivot: expected columns %s, got %s' % (label, xcols + [ycol, zcol], ku), op='unpivot', **sig)
            continue
        got = [r for r in ru if r.get(zcol) is not None]
        if not _multiset_eq(got, want):
            out.viol('unpivot-not-original', '%s then unpivot(%r, %r, %r) minus None-z rows: expected the rows %s (any order), got %s'
                     % (label, xlist, ycol, zcol, show(want, 500), show(got, 500)), op='unpivot', **sig)
            continue
        # ---- the optional spelling unpivot(x, {y: [labels]}, z) with the labels named in ANOTHER order than the pivot table stores them
        ylabels = [k for k in P.keys() if k not in xcols]
        if len(ylabels) >= 2:
            try:
                spec_ = {ycol: ylabels[::-1]}          # the caller's own spec object, used for two calls
                U2 = P.unpivot(xlist, spec_, zcol)
                U2b = P.unpivot(xlist, spec_, zcol)
                out.call()
                if spec_ != {ycol: ylabels[::-1]} or _rows(U2b)[1] != _rows(U2)[1]:
                    out.viol('operand-mutated', '%s then unpivot(%r, spec, %r) twice with ONE spec dict {%r: %r}: the dict is now %r, second result %s' % (
                        label, xlist, zcol, ycol, ylabels[::-1], spec_, show(_rows(U2b)[1], 300)), op='unpivot', operand='spec', **sig)
                out.call()
                ku2, ru2 = _rows(U2)
                got2 = [r for r in ru2 if r.get(zcol) is not None]
                if not _multiset_eq(got2, want):
                    out.viol('unpivot-not-original', '%s then unpivot(%r, {%r: %r}, %r) (labels named in reverse) minus None-z rows: expected the rows %s (any order), got %s'
                             % (label, xlist, ycol, ylabels[::-1], zcol, show(want, 500), show(got2, 500)), op='unpivot', labels='dict-reversed', **sig)
            except Exception as e:
                out.viol('unpivot-raised', '%s then unpivot(%r, {%r: %r}, %r) raised %s: %s' % (label, xlist, ycol, ylabels[::-1], zcol, type(e).__name__, e), op='unpivot', labels='dict-reversed', **sig)
    # ---- y LABELS that are spelt like the names under which y and z are unpivoted ('lab', 'val'): they are data like any other label
    if n:
        out.sub()
        kcol = list(cols[A]) if case['x'] == 'a' else list(range(n))
        labs = ['lab' if i % 2 == 0 else 'val' for i in range(n)]
        try:
            T = dictable(k=[repr(v) for v in kcol], lab=list(labs), val=[10 * i for i in range(n)])
            PV = T.xyz('k', 'lab', 'val', last)
            UV = PV.unpivot('k', 'lab', 'val')
            out.call(2)
            wantv = {}
            for kv, lv, zv in zip(T['k'], labs, T['val']):
                wantv[(kv, lv)] = zv
            gotv = [(r['k'], r['lab'], r['val']) for r in _rows(UV)[1] if r.get('val') is not None]
            if sorted(gotv) != sorted((kv, lv, zv) for (kv, lv), zv in wantv.items()):
                out.viol('unpivot-not-original', "xyz('k', 'lab', 'val', last).unpivot('k', 'lab', 'val') with the labels 'lab' / 'val' on k=%s: got %s, expected %s" % (
                    show(list(T['k'])), sorted(gotv), sorted((kv, lv, zv) for (kv, lv), zv in wantv.items())), op='unpivot', labels='named-like-y-z')
        except Exception as e:
            out.viol('unpivot-raised', "pivot / unpivot with the labels 'lab' / 'val' raised %s: %s" % (type(e).__name__, e), op='unpivot', labels='named-like-y-z')
    # ---- y LABELS that look like spreadsheet junk ('#1', 'n/a', ' ', '-'): each is a label of its own with its own column
    if n:
        out.sub()
        kcol = list(cols[A]) if case['x'] == 'a' else list(range(n))
        odd = ['#1', 'n/a', ' ', '-']
        labs = [odd[(i + case['y'][i]) % 4] for i in range(n)]
        try:
            T = dictable(k=[repr(v) for v in kcol], lab=list(labs), val=[10 * i for i in range(n)])
            PV = T.xyz('k', 'lab', 'val', last)
            out.call()
            wantv = {}
            for kv, lv, zv in zip(T['k'], labs, T['val']):
                wantv[(kv, lv)] = zv
            ylabels = [c_ for c_ in PV.keys() if c_ != 'k']
            if sorted(map(repr, ylabels)) != sorted(map(repr, set(labs))):
                out.viol('pivot-columns', "xyz('k', 'lab', 'val', last) with the labels %s on k=%s: expected one column per label, got the columns %s" % (
                    labs, show(list(T['k'])), list(PV.keys())), op='xyz', labels='odd-strings')
            else:
                gotc = {(r['k'], l_): r[l_] for r in _rows(PV)[1] for l_ in ylabels if r[l_] is not None}
                if gotc != wantv:
                    out.viol('pivot-wrong-cell', "xyz('k', 'lab', 'val', last) with the labels %s on k=%s: cells %s, expected %s" % (labs, show(list(T['k'])), gotc, wantv),
                             op='xyz', labels='odd-strings')
                UV = PV.unpivot('k', 'lab', 'val')
                out.call()
                gotv = [(r['k'], r['lab'], r['val']) for r in _rows(UV)[1] if r.get('val') is not None]
                if sorted(gotv) != sorted((kv, lv, zv) for (kv, lv), zv in wantv.items()):
                    out.viol('unpivot-not-original', "xyz('k', 'lab', 'val', last).unpivot('k', 'lab', 'val') with the labels %s on k=%s: got %s, expected %s" % (
                        labs, show(list(T['k'])), sorted(gotv), sorted((kv, lv, zv) for (kv, lv), zv in wantv.items())), op='unpivot', labels='odd-strings')
        except Exception as e:
            out.viol('unpivot-raised', "pivot / unpivot with the labels %s raised %s: %s" % (labs, type(e).__name__, e), op='unpivot', labels='odd-strings')
    return out


# ------------------------------------------------------------------------------------------------

def suites(tier, seed):
    thorough = tier != 'quick'
    maxrows = 5 if thorough else 4
    p1, p2 = (5, 4) if thorough else (4, 4)
    return [
        Suite('listby_groupby', lambda: gen_tables(maxrows), check_regroup,
              rule='all tables of <= %d rows: column a over every sequence of %s (b a fixed mixed-type function of the row number) and (a, b) over every sequence of '
                   '%s x %s; c = row id, f = float payload with NaN cells; x %d key choices from {a,b,c} (1, 2 (both orders), 3 columns; *args and list spelling) '
                   'for listby+unlist(+sort) and groupby+ungroup, plus listby() without argument; non-trivial = (table, key choice) with a repeated key and >= 2 '
                   'distinct keys, or key cells of two types' % (maxrows, KEY6, A3, B3, len(CHOICES)),
              bounds=dict(max_rows=maxrows, key_values=len(KEY6), two_column_domain='3x3', key_choices=len(CHOICES) + 1)),
        Suite('pivot', lambda: gen_pivots(p1, p2, thorough), check_pivot,
              rule="all tables of <= %d rows with x='a' ((a, y) over %s x 2 y values per row) and of <= %d rows with x=('a','b') ((a, b, y) over %s x %s x 2); "
                   "y a string-valued / an int-valued column; (z, agg) in %s; xyz/pivot then unpivot; non-trivial = an (x, y) cell aggregating >= 2 rows or an "
                   "empty cell" % (p1, PA, p2, PA if thorough else PA[:2], PB, ZAGG),
              bounds=dict(max_rows_x1=p1, max_rows_x2=p2, x2_a_values=3 if thorough else 2, combos_x1=len(COMBOS_X1), combos_x2=len(COMBOS_X2))),
    ]
