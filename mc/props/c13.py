"""
C13 -- df_slice keeps exactly the rows in the interval; stitching switches at bounds; df_unslice inverts an n-column
stitch (DESIGN.md section 4, C13).

E2 suites (nothing is sampled; every listed product is run on the real df_slice / df_unslice):

  slice        every subset of N consecutive days (incl. the empty index) as a float Series and as a 2-column
               DataFrame (one float, one int column) x lb, ub each in {None, before all, on every grid day, at
               midday between the grid days, after all} x the four brackets x {df_slice(df, lb, ub, oc)} plus the
               tuple spelling df_slice(df, (lb, ub)) with the default brackets.
  time_of_day  subsets of a 2-day x 6-hour intraday grid (00,04,...,20h) x lb, ub each in {None, 00:00, 02:00, ...,
               22:00} as datetime.time x the four brackets, incl. lb > ub (the window wraps past midnight).
  stitch       k series on a common 6-day grid (values 10*s+i), each full / empty / with gaps, x every strictly
               increasing k-list of bound positions, given increasing or decreasing, as ub list, lb list or both
               x n in 1..k; df_unslice + re-stitch for the n >= 2 ub-list results.

Oracle: the interval predicate on Python datetimes, written out below; never calls pyg_base.
"""
import datetime
import inspect
import itertools

import numpy as np
import pandas as pd

from mc.engine import Suite, Out

PROPERTY = 'C13'
ASSUMPTIONS = [
    'indices are sorted (any gaps, empty = pd.DatetimeIndex([])) and duplicate free, except in the slice suite\'s cases with ONE timestamp occurring twice '
    '(single slices of a Series only); values are floats (and one int column in the frame) without NaN',
    'bounds are datetime.datetime objects (slice, stitch), datetime.time objects (time_of_day), or (suite spellings) the other ways pyg_base.dt reads a date: '
    'ISO / yyyymmdd strings, datetime.date, np.datetime64, pd.Timestamp, yyyymmdd ints - a day written without a time is midnight of that day; '
    'date and time-of-day bounds are not mixed in one call',
    "the ' ' (do not cut) bracket is excluded; the tuple spelling df_slice(df, (lb, ub)) is compared with the brackets that the signature of "
    'df_slice declares as default (the statement does not name a default for a single slice); stitching is checked with the default brackets only, '
    "which the statement fixes as '(]'",
    'lb > ub given as dates is inside the statement (no row satisfies the predicate -> empty result) and is checked',
    'stitching: as many series as bounds, bound lists strictly increasing or strictly decreasing (a decreasing list pairs series i with bound i, '
    'i.e. the series are taken in bound order); lb lists: series i covers (lb[i], lb[i+1]], the last one is unbounded above; lb and ub lists '
    'together: series i covers (lb[i], ub[i]] with disjoint intervals; with both lists and a None inside the lb list only the increasing order is used '
    '(_is_non_decreasing cannot tell the direction of a 2-list holding a None; the statement is silent on that spelling)',
    'n-column stitch: a row exists at t in interval i iff at least one of series i..i+n-1 has data at t; cells of series without data there (or beyond the last series) are NaN',
    'stitching also runs on series holding NaN-valued rows (a row that is there stays there); df_unslice is only applied when no series holds such a row (an all-NaN row of the '
    'stitched frame cannot be told from a missing one), to n >= 2 results of a ub-list stitch, with the bounds in increasing order; not to the n = 1 result (a Series); '
    'asserted: a dict with one pd.Series per bound, and df_slice([res[b] for b in ub], ub=ub, n=n) equals the stitched frame (NaN-aware, same index, same columns)',
]

BASE = datetime.datetime(2000, 1, 3)
H12 = datetime.timedelta(hours=12)
DAY = datetime.timedelta(days=1)
BRACKETS = ['()', '(]', '[)', '[]']


def _nan(x):
    return isinstance(x, (float, np.floating)) and x != x


def _same(a, b):
    if _nan(a) or _nan(b):
        return _nan(a) and _nan(b)
    try:
        return bool(a == b)
    except Exception:
        return False


def _rows(obj):
    """(list of index entries, list of row tuples) of a Series / DataFrame"""
    idx = list(obj.index)
    if isinstance(obj, pd.DataFrame):
        vals = [tuple(r) for r in obj.values.tolist()]
    else:
        vals = [(v,) for v in obj.values.tolist()]
    return idx, vals


def _same_rows(a, b):
    return len(a) == len(b) and all(len(x) == len(y) and all(_same(p, q) for p, q in zip(x, y)) for x, y in zip(a, b))


def _show(obj):
    try:
        if isinstance(obj, pd.DataFrame):
            return '{%s}' % ', '.join('%s: %s' % (str(t)[:16], list(r)) for t, r in zip(obj.index, obj.values.tolist()))
        if isinstance(obj, pd.Series):
            return '{%s}' % ', '.join('%s: %s' % (str(t)[:16], v) for t, v in zip(obj.index, obj.values.tolist()))
    except Exception:
        pass
    return repr(obj)[:300]


def _showrows(ts, rows):
    return '{%s}' % ', '.join('%s: %s' % (str(t)[:16], list(r) if len(r) > 1 else r[0]) for t, r in zip(ts, rows))


def _keep(t, lb, ub, lc, uc):
    """THE predicate of the statement"""
    if lb is not None and not (lb < t or (lc and lb == t)):
        return False
    if ub is not None and not (t < ub or (uc and t == ub)):
        return False
    return True


def _closed_pair(oc):
    return oc[0] == '[', oc[1] == ']'


def _default_brackets():
    from pyg_base import df_slice
    return inspect.signature(df_slice).parameters['openclose'].default


class _Subject:
    """a Series / 2-column frame over given timestamps; rebuilt when a call modified it"""

    def __init__(self, kind, stamps, ids, unit=None):
        self.kind, self.stamps, self.ids, self.unit = kind, stamps, ids, unit
        self.rebuild()

    def rebuild(self):
        idx = pd.DatetimeIndex(self.stamps)
        if getattr(self, 'unit', None):
            idx = idx.as_unit(self.unit)                 # the same instants stored at another resolution (ns / s instead of the default us)
        if self.kind == 'frame0':
            self.obj = pd.DataFrame(index=idx)           # rows but NO columns
            self.rows = [() for _ in self.ids]
        elif self.kind == 'series':
            self.obj = pd.Series([10.0 + i for i in self.ids], index=idx, dtype=float)
            self.rows = [(10.0 + i,) for i in self.ids]
        else:
            self.obj = pd.DataFrame({'a': pd.Series([10.0 + i for i in self.ids], index=idx, dtype=float),
                                     'b': pd.Series([100 + i for i in self.ids], index=idx, dtype='int64')}, index=idx, columns=['a', 'b'])
            self.rows = [(10.0 + i, 100 + i) for i in self.ids]
        self.index0 = self.obj.index.copy()
        self.values0 = self.obj.values.copy()
        self.dtypes0 = self._dtypes(self.obj)

    @staticmethod
    def _dtypes(o):
        return [str(d) for d in o.dtypes] if isinstance(o, pd.DataFrame) else [str(o.dtype)]

    def untouched(self):
        o = self.obj
        try:
            return o.index.equals(self.index0) and o.values.shape == self.values0.shape and bool((o.values == self.values0).all()) \
                and self._dtypes(o) == self.dtypes0 and (self.kind == 'series' or list(o.columns) == (['a', 'b'] if self.kind == 'frame' else []))
        except Exception:
            return False

    def compare(self, out, res, keep, label, sig, pre='slice'):
        """res must hold exactly the rows keep[] of the subject: same container, index entries, values, order, columns, dtypes"""
        exp_t = [t for t, k in zip(self.stamps, keep) if k]
        exp_v = [r for r, k in zip(self.rows, keep) if k]
        want = pd.Series if self.kind == 'series' else pd.DataFrame
        if not isinstance(res, want):
            out.viol(pre + '-wrong-type', '%s: expected a %s, got %s' % (label, want.__name__, type(res).__name__), **sig)
            return False
        try:
            got_t, got_v = _rows(res)
        except Exception as e:
            out.viol(pre + '-result-broken', '%s: reading the result raised %s: %s' % (label, type(e).__name__, e), **sig)
            return False
        if len(got_t) != len(exp_t) or any(not _same(a, b) for a, b in zip(got_t, exp_t)) or not _same_rows(got_v, exp_v):
            if sorted(map(str, got_t)) == sorted(map(str, exp_t)) and got_t != exp_t:
                kind = pre + '-wrong-order'
            else:
                kind = pre + '-wrong-rows'
            out.viol(kind, '%s: expected %s, observed %s' % (label, _showrows(exp_t, exp_v), _show(res)), **sig)
            return False
        if self.kind == 'frame' and list(res.columns) != ['a', 'b']:
            out.viol(pre + '-columns-changed', '%s: columns %s' % (label, list(res.columns)), **sig)
            return False
        if self._dtypes(res) != self.dtypes0:
            out.viol(pre + '-dtype-changed', '%s: dtypes %s -> %s' % (label, self.dtypes0, self._dtypes(res)), **sig)
            return False
        return True


# ------------------------------------------------------------------------------------------------ slice

def _pos_time(p):
    """bound position p in 0..2N: odd p is grid day (p-1)/2, even p is midday between (0 = before all, 2N = after all)"""
    return BASE + (p - 1) * H12


def gen_slice(N):
    for r in range(N + 1):
        for pts in itertools.combinations(range(N), r):
            for kind in ('series', 'frame'):
                yield {'N': N, 'pts': list(pts), 'kind': kind}
            if pts and max(pts) < 4:
                for unit in ('ns', 's'):
                    yield {'N': N, 'pts': list(pts), 'kind': 'series', 'unit': unit}          # an index stored in nanoseconds / seconds
                yield {'N': N, 'pts': list(pts), 'kind': 'frame0'}                            # a frame with rows but no columns
                for j in range(len(pts)):
                    # a sorted index in which ONE timestamp occurs twice (two observations of one instant): both rows are in or both are out
                    yield {'N': N, 'pts': list(pts[:j + 1]) + list(pts[j:]), 'kind': 'series', 'dup': True}


def check_slice(case):
    from pyg_base import df_slice
    out = Out()
    N, pts, kind = case['N'], case['pts'], case['kind']
    stamps = [BASE + i * DAY for i in pts]
    present = set(2 * i + 1 for i in pts)
    subj = _Subject(kind, stamps, list(range(len(pts))) if case.get('dup') else pts, case.get('unit'))
    default = _default_brackets()
    spellings = [(oc, oc) for oc in BRACKETS]
    if default in BRACKETS:
        spellings.append(('tuple', default))
    positions = [None] + list(range(2 * N + 1))
    for lp in positions:
        lb = None if lp is None else _pos_time(lp)
        for up in positions:
            ub = None if up is None else _pos_time(up)
            on_point = lp in present or up in present
            cat = 'bound-on-point' if on_point else ('unbounded' if lb is None and ub is None else 'bound-between')
            for spell, oc in spellings:
                out.sub()
                lc, uc = _closed_pair(oc)
                keep = [_keep(t, lb, ub, lc, uc) for t in stamps]
                label = 'df_slice(%s %s, %s)' % (kind, [str(t)[:10] for t in stamps],
                                                   ('(%s, %s)' % (lb, ub)) if spell == 'tuple' else '%s, %s, %r' % (lb, ub, oc))
                sig = dict(spell='tuple' if spell == 'tuple' else 'args', oc=oc, kind=kind, lb=_where(lp, present), ub=_where(up, present),
                           inverted=lp is not None and up is not None and lp > up, empty_index=not pts, dup=bool(case.get('dup')), unit=case.get('unit') or 'us')
                try:
                    res = df_slice(subj.obj, (lb, ub)) if spell == 'tuple' else df_slice(subj.obj, lb, ub, oc)
                    out.call()
                except Exception as e:
                    out.viol('slice-raised', '%s raised %s: %s' % (label, type(e).__name__, e), **sig)
                    subj.rebuild()
                    continue
                subj.compare(out, res, keep, label, sig)
                if not subj.untouched():
                    out.viol('slice-argument-modified', '%s changed its argument to %s' % (label, _show(subj.obj)), **sig)
                    subj.rebuild()
                out.cls('%s:%s' % (spell, cat))
                if pts and not any(keep):
                    out.cls('empty-result')
                if on_point:
                    out.nontrivial('%s|%s|%s' % (lp, up, spell))
    return out


def _where(p, present):
    if p is None:
        return 'none'
    return 'on-point' if p in present else ('on-missing-day' if p % 2 else 'between')


# ------------------------------------------------------------------------------------------------ bounds spelt as strings, dates, ints ...

HALF_N = 6                                           # index points on a half-day grid: midnight and midday of three days
SPELLS = ['iso', 'compact', 'date', 'np64', 'ts', 'int']


def _spell(t, how):
    """the datetime t as the caller would write it; midday bounds fall back to a spelling that can carry the time"""
    midnight = t.hour == 0
    if how == 'iso':
        return t.strftime('%Y-%m-%d') if midnight else t.strftime('%Y-%m-%d %H:%M:%S')
    if how == 'compact':
        return t.strftime('%Y%m%d') if midnight else t.strftime('%Y-%m-%dT%H:%M:%S')
    if how == 'date':
        return t.date() if midnight else pd.Timestamp(t)
    if how == 'np64':
        return np.datetime64(t)
    if how == 'ts':
        return pd.Timestamp(t)
    if how == 'int':
        return int(t.strftime('%Y%m%d')) if midnight else t
    raise ValueError(how)


def gen_spellings():
    for m in range(1 << HALF_N):
        yield {'pts': [i for i in range(HALF_N) if m >> i & 1]}


def check_spellings(case):
    """a date bound is the date it denotes however it is written: a day given as '2000-01-04' is midnight of that day, not the whole day"""
    from pyg_base import df_slice
    out = Out()
    pts = case['pts']
    stamps = [BASE + i * H12 for i in pts]
    subj = _Subject('series', stamps, pts)
    positions = [None] + list(range(-1, HALF_N + 1))
    for lp in positions:
        for up in positions:
            lt = None if lp is None else BASE + lp * H12
            ut = None if up is None else BASE + up * H12
            if lt is None and ut is None:
                continue
            on_point = lp in pts or up in pts
            for how in SPELLS:
                lb = None if lt is None else _spell(lt, how)
                ub = None if ut is None else _spell(ut, how)
                for oc in BRACKETS:
                    out.sub()
                    lc, uc = _closed_pair(oc)
                    keep = [_keep(t, lt, ut, lc, uc) for t in stamps]
                    label = 'df_slice(series %s, %r, %r, %r)' % ([str(t)[5:13] for t in stamps], lb, ub, oc)
                    sig = dict(spell=how, oc=oc, lb='none' if lp is None else 'on-point' if lp in pts else 'off-point',
                               ub='none' if up is None else 'on-point' if up in pts else 'off-point', ub_midnight=ut is not None and ut.hour == 0)
                    try:
                        res = df_slice(subj.obj, lb, ub, oc)
                        out.call()
                    except Exception as e:
                        out.viol('slice-raised', '%s raised %s: %s' % (label, type(e).__name__, e), **sig)
                        subj.rebuild()
                        continue
                    subj.compare(out, res, keep, label, sig)
                    if not subj.untouched():
                        out.viol('slice-argument-modified', '%s changed its argument to %s' % (label, _show(subj.obj)), **sig)
                        subj.rebuild()
                    out.cls('%s:%s' % (how, 'on-point' if on_point else 'off-point'))
                    # a midnight bound with observations later on that day is where "the day" and "midnight of the day" differ
                    if any(b is not None and b.hour == 0 and (b + H12) in stamps for b in (lt, ut)):
                        out.nontrivial('%s|%s|%s|%s' % (lp, up, how, oc))
    return out


# ------------------------------------------------------------------------------------------------ time of day

TZ9 = datetime.timezone(datetime.timedelta(hours=9))
HOURS = [0, 4, 8, 12, 16, 20]
TBOUNDS = [None] + list(range(0, 24, 2))          # hours; even multiples of 4 are on the grid


def gen_tod(tier):
    # the same subset of hours on both days, both containers
    for r in range(7):
        for hs in itertools.combinations(range(6), r):
            pts = [h for h in hs] + [6 + h for h in hs]
            for kind in ('series', 'frame'):
                yield {'pts': pts, 'kind': kind}
            if r in ((3, 6) if tier == 'quick' else (1, 2, 3, 4, 5, 6)):
                yield {'pts': pts, 'kind': 'series', 'sub': True}            # the sub-second grid
            if r in ((2, 5) if tier == 'quick' else (1, 2, 3, 4, 5, 6)):
                yield {'pts': pts, 'kind': 'series', 'tz': True}             # a tz-aware index (+09:00): the time of day is the row's own wall clock
    # ONE timestamp occurring twice (two observations of one instant), in and out of ordinary and wrapped windows: both rows are in or both are out, once each
    for hs in ([(1,), (0, 3), (2, 5), (1, 7), (0, 4, 11)] if tier == 'quick' else [c for r in (1, 2, 3) for c in itertools.combinations(range(12), r) if r < 3 or c[0] < 2]):
        for j in range(len(hs)):
            yield {'pts': list(hs[:j + 1]) + list(hs[j:]), 'kind': 'series', 'dup': True}
            if j == 0:
                yield {'pts': list(hs[:j + 1]) + list(hs[j:]), 'kind': 'frame', 'dup': True}
    if tier == 'thorough':
        # every subset of the 12 points (Series); the symmetric ones were done above
        for m in range(1 << 12):
            pts = [i for i in range(12) if m >> i & 1]
            if [p for p in pts if p < 6] == [p - 6 for p in pts if p >= 6]:
                continue
            yield {'pts': pts, 'kind': 'series'}
    else:
        # one day only, and every proper subset of day 1 against a full day 2
        for r in range(1, 7):
            for hs in itertools.combinations(range(6), r):
                yield {'pts': list(hs), 'kind': 'series'}
                if r < 6:
                    yield {'pts': list(hs) + list(range(6, 12)), 'kind': 'series'}


# a second grid inside two seconds around 10:00:00, with bounds on whole seconds, on the points and between them: the time of day is compared
# to the microsecond, not to the second
SUBGRID = [datetime.time(9, 59, 59, 750000), datetime.time(10, 0, 0), datetime.time(10, 0, 0, 250000), datetime.time(10, 0, 0, 500000),
           datetime.time(10, 0, 1), datetime.time(10, 0, 1, 250000)]
SUBBOUNDS = [None, datetime.time(9, 59, 59), datetime.time(9, 59, 59, 750000), datetime.time(9, 59, 59, 900000), datetime.time(10, 0, 0),
             datetime.time(10, 0, 0, 100000), datetime.time(10, 0, 0, 250000), datetime.time(10, 0, 0, 750000), datetime.time(10, 0, 1),
             datetime.time(10, 0, 1, 250000), datetime.time(10, 0, 2)]


def check_tod(case):
    from pyg_base import df_slice
    out = Out()
    pts, kind = case['pts'], case['kind']
    if case.get('sub'):
        grid = SUBGRID
        bounds = SUBBOUNDS
    else:
        grid = [datetime.time(h, 0) for h in HOURS]
        bounds = [None if h is None else datetime.time(h, 0) for h in TBOUNDS]
    stamps = [datetime.datetime.combine((BASE + (i // 6) * DAY).date(), grid[i % 6]) for i in pts]
    if case.get('tz'):
        stamps = [t.replace(tzinfo=TZ9) for t in stamps]
    present = set(grid[i % 6] for i in pts)
    subj = _Subject(kind, stamps, list(range(len(pts))) if case.get('dup') else pts)
    default = _default_brackets()
    spellings = [(oc, oc) for oc in BRACKETS] + ([('tuple', default)] if default in BRACKETS else [])
    if not case.get('sub') and not case.get('tz') and pts:
        # ONE bound a date, the other a time of day: each bound is compared in its own way (the date with the timestamp, the time with the row's time of day)
        dates = [BASE + H12, BASE + DAY, BASE + DAY + H12]
        for d in dates:
            for th in bounds[1::2] + bounds[2:3]:
                for lb, ub in ((d, th), (th, d)):
                    for oc in BRACKETS:
                        out.sub()
                        lc, uc = _closed_pair(oc)
                        if isinstance(lb, datetime.time):
                            keep = [_keep(t.time(), lb, None, lc, uc) and _keep(t, None, ub, lc, uc) for t in stamps]
                        else:
                            keep = [_keep(t, lb, None, lc, uc) and _keep(t.time(), None, ub, lc, uc) for t in stamps]
                        label = 'df_slice(%s %s, %s, %s, %r)' % (kind, [str(t)[5:13] for t in stamps], lb, ub, oc)
                        sig = dict(oc=oc, kind=kind, mixed='time-date' if isinstance(lb, datetime.time) else 'date-time', dup=bool(case.get('dup')))
                        try:
                            res = df_slice(subj.obj, lb, ub, oc)
                            out.call()
                        except Exception as e:
                            out.viol('tod-raised', '%s raised %s: %s' % (label, type(e).__name__, e), **sig)
                            subj.rebuild()
                            continue
                        subj.compare(out, res, keep, label, sig, pre='tod')
                        if not subj.untouched():
                            out.viol('tod-argument-modified', '%s changed its argument to %s' % (label, _show(subj.obj)), **sig)
                            subj.rebuild()
                        out.cls('tod:mixed-kinds')
                        if any(keep) and not all(keep):
                            out.nontrivial('mixed|%s|%s|%s' % (lb, ub, oc))
    for lh in bounds:
        lb = lh
        for uh in bounds:
            ub = uh
            wrap = lb is not None and ub is not None and lb > ub
            on_point = lh in present or uh in present
            cat = 'wrap' if wrap else 'bound-on-point' if on_point else ('unbounded' if lb is None and ub is None else 'bound-between')
            for spell, oc in spellings:
                out.sub()
                lc, uc = _closed_pair(oc)
                if wrap:
                    # past midnight: from lb to the end of the day, and from the start of the day to ub, same brackets
                    keep = [_keep(t.time(), lb, None, lc, uc) or _keep(t.time(), None, ub, lc, uc) for t in stamps]
                else:
                    keep = [_keep(t.time(), lb, ub, lc, uc) for t in stamps]
                label = 'df_slice(%s %s, %s)' % (kind, [str(t)[5:13] if not case.get('sub') else str(t)[5:] for t in stamps],
                                                 '(%s, %s)' % (lb, ub) if spell == 'tuple' else '%s, %s, %r' % (lb, ub, oc))
                sig = dict(oc=oc, kind=kind, wrap=wrap, spell='tuple' if spell == 'tuple' else 'args', tz=bool(case.get('tz')), lb='none' if lh is None else 'on-point' if lh in present else 'off-point',
                           ub='none' if uh is None else 'on-point' if uh in present else 'off-point', empty_index=not pts, dup=bool(case.get('dup')))
                try:
                    res = df_slice(subj.obj, (lb, ub)) if spell == 'tuple' else df_slice(subj.obj, lb, ub, oc)
                    out.call()
                except Exception as e:
                    out.viol('tod-raised', '%s raised %s: %s' % (label, type(e).__name__, e), **sig)
                    subj.rebuild()
                    continue
                subj.compare(out, res, keep, label, sig, pre='tod')
                if not subj.untouched():
                    out.viol('tod-argument-modified', '%s changed its argument to %s' % (label, _show(subj.obj)), **sig)
                    subj.rebuild()
                out.cls('wrap' if wrap else 'tod:%s:%s' % (spell, cat))
                if pts and not any(keep):
                    out.cls('empty-result')
                if wrap or on_point:
                    out.nontrivial('%s|%s|%s' % (lh, uh, oc))
    return out


# ------------------------------------------------------------------------------------------------ stitch

NDAYS = 6
PATS_Q2 = ['111111', '000000', '101010', '000111', '111000']
PATS_Q3 = ['111111', '000000', '101010', '121212']
PATS_T2 = ['111111', '000000', '101010', '010101', '000111', '111000', '110011', '100000', '000001', '011110', '001100', '100001']
PATS_T3 = ['111111', '000000', '101010', '000111', '111000', '121212', '212121']
PATS_T4 = ['111111', '000000', '101010']
POS_Q = [0, 1, 4, 5, 8, 9, 11, 12]
POS_Q3 = [0, 1, 4, 5, 8, 11, 12]
POS_T = list(range(2 * NDAYS + 1))


def gen_stitch(tier):
    """one case = k patterns + all bound positions but the last one (check_stitch loops over the last bound, the direction, the spelling and n)"""
    plan = [(2, PATS_Q2, POS_Q), (3, PATS_Q3, POS_Q)] if tier == 'quick' else [(2, PATS_T2, POS_T), (3, PATS_T3, POS_T), (4, PATS_T4, POS_Q3)]
    for k, pats, pos in plan:
        for ps in itertools.product(pats, repeat=k):
            for head in itertools.combinations(pos[:-1], k - 1):
                yield {'k': k, 'pats': list(ps), 'head': list(head), 'pos': pos}


def _mk_series(s, pat):
    ids = [i for i in range(NDAYS) if pat[i] != '0']          # '1' = an observation, '2' = a row that is there but holds NaN
    return pd.Series([(np.nan if pat[i] == '2' else 10.0 * s + i) for i in ids], index=pd.DatetimeIndex([BASE + i * DAY for i in ids]), dtype=float)


def _model_series(s, pat):
    return {BASE + i * DAY: (np.nan if pat[i] == '2' else 10.0 * s + i) for i in range(NDAYS) if pat[i] != '0'}


def _stitch_model(models, intervals, n):
    """models: dicts t -> value in bound order; intervals: (lb, ub) in bound order, half open (lb, ub]; -> (stamps, rows)"""
    k = len(models)
    ts, rows = [], []
    for i, (lb, ub) in enumerate(intervals):
        window = models[i:i + n]
        for t in sorted(set().union(*[set(m) for m in window])):
            if _keep(t, lb, ub, False, True):
                ts.append(t)
                rows.append(tuple(window[j].get(t, np.nan) if j < len(window) else np.nan for j in range(n)))
    return ts, rows


def check_stitch(case):
    from pyg_base import df_slice, df_unslice
    out = Out()
    k, pats, head, pos = case['k'], case['pats'], case['head'], case['pos']
    empties = ''.join('E' if p == '0' * NDAYS else 'F' if p == '1' * NDAYS else 'G' for p in pats)
    rest = [p for p in pos if p > head[-1]]

    def fresh():
        return [_mk_series(s, p) for s, p in enumerate(pats)]

    series = fresh()
    snaps = [(s.index.copy(), s.values.copy()) for s in series]

    def untouched(given):
        return len(given) == k and all(a is b for a, b in zip(given, series)) and \
            all(s.index.equals(i0) and s.values.shape == v0.shape and bool(((s.values == v0) | ((s.values != s.values) & (v0 != v0))).all()) and s.dtype == float
                for s, (i0, v0) in zip(series, snaps))

    for lastp in rest:
        P = list(head) + [lastp]                       # strictly increasing bound positions
        B = [_pos_time(p) for p in P]
        # a lower-bound list for the "both" spelling with a gap after every switch: (lb[i], ub[i]] are disjoint and ordered
        G = [_pos_time(max(P[0] - 3, 0))] + [_pos_time(min(P[i - 1] + 1, P[i])) for i in range(1, k)]
        for direction in ('inc', 'dec'):
            order = list(range(k)) if direction == 'inc' else list(range(k - 1, -1, -1))     # order[i] = given position of the i-th smallest bound
            # the caller's lists: bound of rank i sits at given position order[i]
            def given_list(xs):
                g = [None] * k
                for rank, at in enumerate(order):
                    g[at] = xs[rank]
                return g
            models = [_model_series(order[i], pats[order[i]]) for i in range(k)]          # series in bound order
            modes = [('ub', None, B, [(None if i == 0 else B[i - 1], B[i]) for i in range(k)]),
                     ('lb', B, None, [(B[i], B[i + 1] if i + 1 < k else None) for i in range(k)]),
                     ('both-gap', G, B, [(G[i], B[i]) for i in range(k)])]
            if direction == 'inc':
                modes.append(('both', [None] + B[:-1], B, [(None if i == 0 else B[i - 1], B[i]) for i in range(k)]))
            if k >= 3:
                # a missing bound is unbounded: the LAST upper bound / the FIRST lower bound left open (None), in both list directions
                # (with two series a list [x, None] has no direction: only k >= 3)
                UO = B[:-1] + [None]
                modes.append(('ub-open', None, UO, [(None if i == 0 else B[i - 1], UO[i]) for i in range(k)]))
                LO = [None] + B[1:]
                modes.append(('lb-open', LO, None, [(LO[i], B[i + 1] if i + 1 < k else None) for i in range(k)]))
            for mode, L, U, intervals in modes:
                ns = range(1, k + 1) if direction == 'inc' else sorted(set([1, k]))
                for n in ns:
                    out.sub()
                    gl = None if L is None else given_list(L)
                    gu = None if U is None else given_list(U)
                    given = list(series)
                    label = 'df_slice([%s], lb=%s, ub=%s, n=%d)' % (', '.join('s%d:%s' % (s, p) for s, p in enumerate(pats)), _dl(gl), _dl(gu), n)
                    sig = dict(mode=mode, dir=direction, k=k, n=n, series=empties)
                    exp_t, exp_r = _stitch_model(models, intervals, n)
                    try:
                        res = df_slice(given, lb=gl, ub=gu, n=n)
                        out.call()
                    except Exception as e:
                        out.viol('stitch-raised', '%s raised %s: %s; expected %s' % (label, type(e).__name__, e, _showrows(exp_t, exp_r)), **sig)
                        series = fresh()
                        snaps = [(s.index.copy(), s.values.copy()) for s in series]
                        continue
                    ok = _compare_stitch(out, res, exp_t, exp_r, n, U[-1] if mode not in ('lb', 'lb-open') else None, label, sig)
                    if not untouched(given) or (gl is not None and gl != given_list(L)) or (gu is not None and gu != given_list(U)):
                        out.viol('stitch-argument-modified', '%s changed its arguments' % label, **sig)
                        series = fresh()
                        snaps = [(s.index.copy(), s.values.copy()) for s in series]
                    switches = len(set(i for i, (lb, ub) in enumerate(intervals) for t in exp_t if _keep(t, lb, ub, False, True)))
                    out.cls('stitch-n1' if n == 1 else 'stitch-nk')
                    if not exp_t:
                        out.cls('empty-result')
                    if switches >= 2:
                        out.nontrivial('%s|%s|%s|%d' % (P, direction, mode, n))
                    # ---- the inverse
                    if ok and mode == 'ub' and n >= 2 and direction == 'inc' and not any('2' in p_ for p_ in pats):      # (an all-NaN row of the frame cannot be told from a missing one)
                        out.sub()
                        _check_unslice(out, df_slice, df_unslice, res, B, n, label, dict(sig, rows=min(len(exp_t), 1)))
                        out.cls('unslice')
    return out


def _dl(xs):
    if xs is None:
        return 'None'
    return '[%s]' % ', '.join('None' if x is None else x.strftime('%m-%d %Hh') for x in xs)


def _compare_stitch(out, res, exp_t, exp_r, n, last, label, sig):
    want = pd.Series if n == 1 else pd.DataFrame
    if not isinstance(res, want):
        out.viol('stitch-wrong-type', '%s: expected a %s, got %s' % (label, want.__name__, type(res).__name__), **sig)
        return False
    try:
        got_t = list(res.index)
        if n == 1:
            got_r = [(v,) for v in res.values.tolist()]
        else:
            cols = list(res.columns)
            if len(cols) != n or any(not any(_same(c, j) for c in cols) for j in range(n)):
                out.viol('stitch-wrong-columns', '%s: expected columns %s, got %s' % (label, list(range(n)), cols), **sig)
                return False
            pos = [cols.index(j) for j in range(n)]
            got_r = [tuple(r[p] for p in pos) for r in res.values.tolist()]
    except Exception as e:
        out.viol('stitch-result-broken', '%s: reading the result raised %s: %s' % (label, type(e).__name__, e), **sig)
        return False
    shown = 'expected %s, observed %s' % (_showrows(exp_t, exp_r), _showrows(got_t, got_r))
    try:
        if len(set(got_t)) != len(got_t):
            out.viol('stitch-timestamp-twice', '%s: a timestamp is covered more than once: %s' % (label, shown), **sig)
            return False
        if any(not a < b for a, b in zip(got_t, got_t[1:])):
            out.viol('stitch-unsorted', '%s: result index is not increasing: %s' % (label, shown), **sig)
            return False
        if last is not None and any(t > last for t in got_t):
            out.viol('stitch-beyond-last-bound', '%s: rows after the last bound %s survive: %s' % (label, last, shown), **sig)
            return False
    except Exception as e:
        out.viol('stitch-result-broken', '%s: index %s cannot be compared: %s: %s' % (label, got_t, type(e).__name__, e), **sig)
        return False
    if len(got_t) != len(exp_t) or any(not _same(a, b) for a, b in zip(got_t, exp_t)) or not _same_rows(got_r, exp_r):
        out.viol('stitch-wrong-rows', '%s: %s' % (label, shown), **sig)
        return False
    if any(str(d) != 'float64' for d in (res.dtypes if n > 1 else [res.dtype])):
        out.viol('stitch-dtype-changed', '%s: dtypes %s' % (label, [str(d) for d in (res.dtypes if n > 1 else [res.dtype])]), **sig)
        return False
    return True


def _check_unslice(out, df_slice, df_unslice, frame, B, n, label, sig):
    ub = list(B)
    idx0, val0 = frame.index.copy(), frame.values.copy()
    ulabel = 'df_unslice(F, %s) with F = %s = %s' % (_dl(ub), label, _show(frame))
    try:
        un = df_unslice(frame, ub)
        out.call()
    except Exception as e:
        out.viol('unslice-raised', '%s raised %s: %s' % (ulabel, type(e).__name__, e), **sig)
        return
    try:
        if not isinstance(un, dict) or len(un) != len(B) or any(b not in un for b in B):
            out.viol('unslice-not-one-per-bound', '%s: expected one entry per bound, got keys %s' % (ulabel, list(un.keys()) if isinstance(un, dict) else type(un)), **sig)
            return
        parts = [un[b] for b in B]
        if any(not isinstance(p, pd.Series) or isinstance(p, pd.DataFrame) for p in parts):
            out.viol('unslice-not-series', '%s: values are %s' % (ulabel, [type(p).__name__ for p in parts]), **sig)
            return
    except Exception as e:
        out.viol('unslice-result-broken', '%s: reading the result raised %s: %s' % (ulabel, type(e).__name__, e), **sig)
        return
    if not (frame.index.equals(idx0) and frame.values.shape == val0.shape and _same_rows(frame.values.tolist(), val0.tolist())):
        out.viol('unslice-argument-modified', '%s changed the frame' % ulabel, **sig)
        return
    shown = '{%s}' % ', '.join('%s: %s' % (b.strftime('%m-%d %Hh'), _show(p)) for b, p in zip(B, parts))
    try:
        again = df_slice(list(parts), ub=list(B), n=n)
        out.call()
    except Exception as e:
        out.viol('restitch-raised', '%s = %s; stitching these again raised %s: %s' % (ulabel, shown, type(e).__name__, e), **sig)
        return
    try:
        same = isinstance(again, pd.DataFrame) and len(again.index) == len(frame.index) and all(_same(a, b) for a, b in zip(again.index, frame.index)) \
            and len(again.columns) == len(frame.columns) and set(again.columns) == set(frame.columns) \
            and _same_rows(again[list(frame.columns)].values.tolist(), frame.values.tolist())
    except Exception as e:
        out.viol('restitch-result-broken', '%s = %s; comparing the re-stitched frame raised %s: %s' % (ulabel, shown, type(e).__name__, e), **sig)
        return
    if not same:
        out.viol('unslice-roundtrip', '%s = %s; stitching these again gives %s' % (ulabel, shown, _show(again)), **sig)


# ------------------------------------------------------------------------------------------------

def suites(tier, seed):
    N = 6 if tier == 'quick' else 7
    if tier == 'quick':
        splan = 'k=2: %d patterns per series, k=3: %d patterns, bound positions %s' % (len(PATS_Q2), len(PATS_Q3), POS_Q)
    else:
        splan = 'k=2: %d patterns per series, k=3: %d patterns, all 13 bound positions; k=4: %d patterns, bound positions %s' % (
            len(PATS_T2), len(PATS_T3), len(PATS_T4), POS_Q3)
    return [
        Suite('slice', lambda: gen_slice(N), check_slice,
              rule='every subset of %d consecutive days as float Series and as 2-column frame x lb, ub in {None, before, on each day, midday between, after}^2 '
                   '(incl. lb > ub) x 4 brackets + the tuple spelling with the default brackets; non-trivial = a bound coincides with a timestamp of the index' % N,
              bounds=dict(days=N, bound_positions=2 * N + 2, brackets=4)),
        Suite('spellings', gen_spellings, check_spellings,
              rule='every subset of a 6-point half-day grid (midnight and midday of 3 days) as Series x lb, ub in {None, before, each grid point, after}^2 '
                   'x 4 brackets x the bounds written as ISO string, yyyymmdd string, datetime.date, np.datetime64, pd.Timestamp, yyyymmdd int '
                   '(midday bounds: the nearest spelling that carries a time); non-trivial = a midnight bound with observations at midday of that day',
              bounds=dict(points=HALF_N, bound_positions=HALF_N + 3, brackets=4, spellings=len(SPELLS))),
        Suite('time_of_day', lambda: gen_tod(tier), check_tod,
              rule=('subsets of a 2-day x 6-hour grid (%s) x lb, ub in {None, 00:00, 02:00 .. 22:00}^2 as datetime.time x 4 brackets; '
                    'non-trivial = the window wraps (lb > ub) or a bound equals a time of day present in the index') % (
                  'all 4096 subsets as Series, the 64 day-symmetric ones also as frame' if tier == 'thorough' else
                  'the 64 subsets of hours on both days as Series and frame, on one day only, and against a full second day'),
              bounds=dict(hours=6, days=2, time_bounds=len(TBOUNDS))),
        Suite('stitch', lambda: gen_stitch(tier), check_stitch,
              rule='k series on a 6-day grid, each full/empty/with gaps (%s) x every strictly increasing k-list of bound positions, given increasing or '
                   'decreasing, as ub list / lb list / both lists (contiguous and with gaps) x n in 1..k (decreasing: n in {1,k}); df_unslice + re-stitch '
                   'for every n >= 2 result of an increasing ub list; non-trivial = the expected result takes rows from at least two series' % splan,
              bounds=dict(days=NDAYS, k_max=3 if tier == 'quick' else 4)),
    ]
