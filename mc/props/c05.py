"""
C05 -- Calendar business-day arithmetic agrees with day-by-day counting (DESIGN.md section 4, C05).

Suite 'configs' (engine E2): every holiday subset of a critical window W of w consecutive days, placed over the
2024 March/April month end (Good-Friday-like: a Friday, a weekend, the month end) and over the 2023/24 year end,
x weekend in {Sat-Sun, Fri-Sat, Sun, none} x adj in {f,p,m}.  One case = one configuration; inside the case every
day t of W +- 5 days and every n of the tier's list is run through is_bday / is_holiday / adjust / add / bdays /
drange / dt_bump on a fresh real Calendar and compared with a reference that steps one day at a time over plain
integer day numbers and never calls pyg_base.

Suite 'registry' (engine E1): breadth-first search over register / fetch histories of the module-level `calendars`
registry (reset at the start of every replayed history) against a last-writer-wins map key -> holiday set.
"""
import datetime
import itertools

from mc.engine import Suite, BfsSuite, Out

PROPERTY = 'C05'
ASSUMPTIONS = [
    'suite configs: dates are midnight datetimes and every input date and every result lies more than 60 business days inside the calendar range '
    '(2023-06-01..2024-10-31); suite range_ends: short ranges, every claim whose dates (t, adjust(t), result) all lie INSIDE [t0, t1] incl. the two end days '
    '(what happens when a result would leave the range is not claimed), and t also given with a time of day: a date with a time of day denotes its day, '
    'business days are returned as midnight datetimes',
    'holidays are given as midnight datetimes (non-midnight holiday entries are excluded)',
    'add(t, 0) is read as "the 0-th business day counted from adjust(t)" = adjust(t) with the calendar\'s own adj; for negative n from a '
    'non-business day the count also starts at adjust(t) (so Saturday, adj f, n=-1 is the Friday before: Monday minus one)',
    'is_holiday(t) is read as the complement of is_bday(t) (weekend day or listed holiday), which is how adjust/add use it',
    'registry: calendar(key) for a key that was never registered is unspecified by the statement (the code registers a holiday-free '
    '1900..2300 calendar); nothing is compared for such a key until it is registered; calendar(cal_obj, holidays=[]) and '
    'calendar(key, t0=..)/(key, weekend=..) without holidays are left out',
    'a whole month without business days cannot occur inside the bounds (window <= 10 days), so "m" always has an answer',
]

D = datetime.datetime
DAY = datetime.timedelta(1)

# ------------------------------------------------------------------------------------------------------------------
# plain-integer day tables for the calendar range (the reference works on indices into these tables only)

T0 = D(2023, 6, 1)
T1 = D(2024, 10, 31)
NDAYS = (T1 - T0).days + 1
DTS = [T0 + i * DAY for i in range(NDAYS)]
WD = [d.weekday() for d in DTS]                       # 0 = Monday
YM = [(d.year, d.month) for d in DTS]
IDX = {d: i for i, d in enumerate(DTS)}
SAFE_LO, SAFE_HI = 100, NDAYS - 101                    # 100 calendar days >= 71 weekdays - 10 holidays > 60 business days

WEEKENDS = [[5, 6], [4, 5], [6], []]
ADJS = ['f', 'p', 'm']
PLACEMENTS = {            # (w, placement) -> first day of W
    (7, 0): D(2024, 3, 29), (7, 1): D(2023, 12, 29),
    (10, 0): D(2024, 3, 27), (10, 1): D(2023, 12, 27),
}
PAD = 5
NS = {
    'quick': list(range(-6, 7)) + [7, -7, 20, -20, 40, -40],
    'all': list(range(-40, 41)),
}
BUMP_NS = set(NS['quick'])                           # dt_bump(t,'nb') spellings (it forwards to add); every other call runs for all n
MAXV = 40                                            # violations recorded per case (the rest only repeat)


class Ref:
    """day-by-day reference on indices into DTS; bd[i] says whether day i is a business day"""

    def __init__(self, hol, weekend, adj):
        self.adj = adj
        we = set(weekend)
        self.bd = [WD[i] not in we and i not in hol for i in range(NDAYS)]

    def is_bday(self, i):
        return self.bd[i]

    def adjust(self, i, a=None):
        a = a or self.adj
        if a == 'f':
            while not self.bd[i]:
                i += 1
            return i
        if a == 'p':
            while not self.bd[i]:
                i -= 1
            return i
        f = self.adjust(i, 'f')
        if YM[f] != YM[i]:
            return self.adjust(i, 'p')
        return f

    def walk(self, i, nmax, a=None):
        """{n: the n-th business day counted from adjust(i, a)} for -nmax <= n <= nmax, by stepping one day at a time"""
        x0 = self.adjust(i, a)
        res = {0: x0}
        for step in (1, -1):
            x, k = x0, 0
            while abs(k) < nmax:
                x += step
                if self.bd[x]:
                    k += step
                    res[k] = x
        return res

    def between(self, a, b):
        return [j for j in range(a, b + 1) if self.bd[j]]


def _critical(hol, weekend):
    """holidays (that are not weekend days anyway) adjacent to a weekend day or to a month boundary"""
    we = set(weekend)
    res = []
    for h in hol:
        if WD[h] in we:
            continue
        if WD[h - 1] in we or WD[h + 1] in we or YM[h - 1] != YM[h] or YM[h + 1] != YM[h]:
            res.append(h)
    return res


# ------------------------------------------------------------------------------------------------------------------
# the ends of a SHORT calendar range, and dates that carry a time of day

RANGE_T0 = [D(2024, 3, 1), D(2024, 3, 2), D(2024, 3, 4)]            # Friday, Saturday, Monday
RANGE_T1 = [D(2024, 3, 28), D(2024, 3, 29), D(2024, 3, 30), D(2024, 4, 1)]   # Thursday, Friday (a business day), Saturday, Monday
TOD = datetime.timedelta(hours=9, minutes=30)


def gen_range_ends():
    for a in range(len(RANGE_T0)):
        for b in range(len(RANGE_T1)):
            for mask in range(16):                    # holidays among the first two and the last two days of the range
                for wk in (0, 1):
                    for adj in ('f', 'p'):
                        yield [a, b, mask, wk, adj]


def check_range_ends(case):
    """a calendar over a four-week range: every claim whose dates (t, adjust(t), the result) all lie inside [t0, t1] -- in particular those that
    land exactly on the first / last day of the range; and every t also given with a time of day (09:30): the answers are those of t's day"""
    from pyg_base import Calendar
    a, b, mask, wk, adj = case
    out = Out()
    r0, r1 = IDX[RANGE_T0[a]], IDX[RANGE_T1[b]]
    edge = [r0, r0 + 1, r1 - 1, r1]
    hol = [edge[k] for k in range(4) if mask >> k & 1]
    weekend = WEEKENDS[wk]
    ref = Ref(set(hol), weekend, adj)
    label = 'Calendar(holidays=%s, weekend=%s, t0=%s, t1=%s, adj=%r)' % ([DTS[h].strftime('%m-%d(%a)') for h in hol], weekend, DTS[r0].strftime('%Y-%m-%d(%a)'),
                                                                       DTS[r1].strftime('%Y-%m-%d(%a)'), adj)
    try:
        cal = Calendar(None, holidays=[DTS[h] for h in hol], weekend=list(weekend), t0=DTS[r0], t1=DTS[r1], adj=adj)
    except Exception as e:
        out.viol('construct-raised', '%s: %s: %s' % (label, type(e).__name__, e))
        return out
    inside = lambda i: r0 <= i <= r1
    fmt = lambda x: x.strftime('%m-%d(%a)%H:%M') if isinstance(x, datetime.datetime) else repr(x)
    nviol = [0]

    def bad(kind, msg, **sig):
        nviol[0] += 1
        if nviol[0] <= MAXV:
            out.viol(kind, '%s: %s' % (label, msg), **sig)

    def impl(f, *args, **k):
        out.call()
        try:
            return f(*args, **k)
        except Exception as e:
            return e
    for i in range(r0, r1 + 1):
        out.sub()
        t = DTS[i]
        e0 = ref.adjust(i)
        if not inside(e0):
            out.cls('adjust-leaves-range')
            continue
        table = ref.walk(i, 25)
        for tt, tod in ((t, False), (t + TOD, True)):
            got = impl(cal.is_bday, tt)
            if got != ref.is_bday(i):
                bad('is_bday-wrong', 't=%s is_bday expected %s observed %r' % (fmt(tt), ref.is_bday(i), got), op='is_bday', tod=tod, range_end=True)
            got = impl(cal.adjust, tt)
            if got != DTS[e0]:
                bad('adjust-wrong', 't=%s adjust(t) expected %s observed %s' % (fmt(tt), fmt(DTS[e0]), fmt(got)), op='adjust', tod=tod, range_end=True)
            for n in range(-25, 26):
                x = table[n]
                if not inside(x):
                    # the n-th business day lies OUTSIDE the range: the calendar may refuse (it raises), but a date it does hand back must still be that day
                    if not tod and 0 <= x < len(DTS):
                        got = impl(cal.add, tt, n)
                        if not isinstance(got, Exception) and got != DTS[x]:
                            bad('add-wrong', 't=%s add(t, %d): the answer %s lies outside the range; the calendar did not refuse but returned %s' % (fmt(tt), n, fmt(DTS[x]), fmt(got)),
                                op='add', path='loop' if abs(n) <= 1 else 'table', tod=tod, outside=True, sign=(n > 0) - (n < 0))
                        out.cls('answer-outside-range:%s' % ('refused' if isinstance(got, Exception) else 'answered'))
                    continue
                on_end = x in (r0, r1) or e0 in (r0, r1)
                got = impl(cal.add, tt, n)
                if got != DTS[x]:
                    bad('add-wrong', 't=%s add(t, %d) expected %s observed %s' % (fmt(tt), n, fmt(DTS[x]), fmt(got)), op='add', path='loop' if abs(n) <= 1 else 'table', tod=tod,
                        on_range_end=on_end)
                    continue
                got = impl(cal.bdays, tt, DTS[x])
                if got != n:
                    bad('bdays-wrong', 't=%s bdays(t, %s) expected %d observed %r' % (fmt(tt), fmt(DTS[x]), n, got), op='bdays', tod=tod, on_range_end=on_end)
                if on_end:
                    out.nontrivial('%d|%d|%s' % (i - r0, n, tod))
                out.cls('lands-on-range-end' if x in (r0, r1) else 'inside')
            if not tod:
                # bdays as the FIRST question ever put to a calendar object (no table built yet), in both directions: the count is signed
                for j in (r0, i - 3, i + 2, r1):
                    if not inside(j):
                        continue
                    ej = ref.adjust(j)
                    if not inside(ej):
                        continue
                    lo, hi = min(e0, ej), max(e0, ej)
                    want = (len(ref.between(lo, hi)) - 1) * (1 if ej >= e0 else -1)
                    try:
                        fresh = Calendar(None, holidays=[DTS[h] for h in hol], weekend=list(weekend), t0=DTS[r0], t1=DTS[r1], adj=adj)
                        got = impl(fresh.bdays, tt, DTS[j])
                    except Exception as e:
                        got = e
                    if got != want:
                        bad('bdays-wrong', 'bdays(%s, %s) asked of a freshly built calendar: expected %d observed %r' % (fmt(tt), fmt(DTS[j]), want, got), op='bdays', fresh=True,
                            sign=(want > 0) - (want < 0))
            for j in (r1, r1 - 1, i):
                ej = ref.adjust(j)
                if j < i or not inside(ej):
                    continue
                want = [DTS[k] for k in ref.between(e0, ej)]
                got = impl(cal.drange, tt, DTS[j] + (TOD if tod else datetime.timedelta(0)), '1b')
                if got != want:
                    bad('drange-wrong', "drange(%s, %s, '1b') expected %s observed %s" % (fmt(tt), fmt(DTS[j]), [fmt(x) for x in want],
                                                                                        [fmt(x) for x in got] if isinstance(got, list) else got), op='drange', tod=tod, on_range_end=ej in (r0, r1))
    return out


def gen_configs(w, nsname):
    masks = sorted(range(2 ** w), key=lambda m: (bin(m).count('1'), m))       # simplest first
    for mask in masks:
        for p in (0, 1):
            for wk in range(len(WEEKENDS)):
                for adj in ADJS:
                    yield [w, p, mask, wk, adj, nsname]


def check_config(case):
    from pyg_base import Calendar
    w, p, mask, wk, adj, nsname = case
    out = Out()
    ns = NS[nsname]
    nmax = max(abs(n) for n in ns)
    w0 = IDX[PLACEMENTS[(w, p)]]
    hol = [w0 + k for k in range(w) if mask >> k & 1]
    weekend = WEEKENDS[wk]
    ref = Ref(set(hol), weekend, adj)
    days = list(range(w0 - PAD, w0 + w + PAD))
    label = 'Calendar(holidays=%s, weekend=%s, t0=2023-06-01, t1=2024-10-31, adj=%r)' % (
        [DTS[h].strftime('%Y-%m-%d(%a)') for h in hol], weekend, adj)

    def bad(kind, msg, **sig):
        if len(out.v) < MAXV:
            out.viol(kind, '%s: %s' % (label, msg), **sig)

    def fmt(x):
        if isinstance(x, datetime.datetime):
            return x.strftime('%Y-%m-%d(%a)')
        if isinstance(x, list):
            return '[' + ', '.join(fmt(i) for i in x) + ']'
        return repr(x)

    def impl(f, *a, **k):
        out.call()
        try:
            return True, f(*a, **k)
        except Exception as e:
            return False, e

    try:
        cal = Calendar(None, holidays=[DTS[h] for h in hol], weekend=list(weekend), t0=T0, t1=T1, adj=adj)
    except Exception as e:
        bad('construct-raised', '%s: %s' % (type(e).__name__, e))
        return out

    crit = _critical(hol, weekend)
    realhol = [h for h in hol if WD[h] not in weekend]           # listed holidays that are not weekend days anyway
    if not hol:
        out.cls('no-holiday')
    elif not crit:
        out.cls('holidays-inside-weekend-or-midweek')
    else:
        out.cls('holiday-adjacent-to-weekend-or-month-end')

    for i in days:
        t = DTS[i]
        out.sub()
        tl = 't=%s' % fmt(t)
        if any(abs(h - i) <= 8 for h in crit):
            out.nontrivial(i - w0)
        # ---- predicates
        eb = ref.is_bday(i)
        ok, got = impl(cal.is_bday, t)
        if not ok or got != eb:
            bad('is_bday-wrong', '%s is_bday expected %s observed %r' % (tl, eb, got), op='is_bday', expected=eb)
        ok, got = impl(cal.is_holiday, t)
        if not ok or bool(got) != (not eb):
            bad('is_holiday-wrong', '%s is_holiday expected %s observed %r' % (tl, not eb, got), op='is_holiday', expected=not eb)
        # ---- adjust
        for a in ('f', 'p', 'm', None):
            e = ref.adjust(i, a)
            assert SAFE_LO < e < SAFE_HI
            ok, got = impl(cal.adjust, t, a)
            if not ok or got != DTS[e]:
                bad('adjust-wrong', '%s adjust(t, %r) expected %s observed %s' % (tl, a, fmt(DTS[e]), fmt(got)), op='adjust', a=a or 'own',
                    rolled=bool((a or adj) == 'm' and e < i))
            if (a or adj) == 'm' and e < i:
                out.cls('%s:month-roll' % adj)
            elif a is None:
                out.cls('%s:adjust-%s' % (adj, 'identity' if e == i else 'moved'))
        # ---- add and its laws
        table = ref.walk(i, max(nmax, 2))
        assert SAFE_LO < table[-max(nmax, 2)] and table[max(nmax, 2)] < SAFE_HI
        for n in ns:
            e = DTS[table[n]]
            path = 'loop' if abs(n) <= 1 else 'table'
            sgn = (n > 0) - (n < 0)
            lo, hi = min(table[0], table[n], i), max(table[0], table[n], i)
            out.cls('%s:%s-path-%s' % (adj, path, 'over-holiday' if any(lo <= h <= hi for h in realhol) else 'plain'))
            ok, r = impl(cal.add, t, n)
            if not ok or r != e:
                bad('add-wrong', '%s add(t, %d) expected %s (the %d-th business day from adjust(t)=%s) observed %s' % (
                    tl, n, fmt(e), n, fmt(DTS[table[0]]), fmt(r)), op='add', path=path, sign=sgn, bday=eb)
                continue
            ok, got = impl(cal.bdays, t, r)
            if not ok or got != n:
                bad('bdays-wrong', '%s bdays(t, add(t, %d)=%s) expected %d observed %r' % (tl, n, fmt(r), n, got), op='bdays', sign=sgn, bday=eb)
            if eb:
                ok, got = impl(cal.add, r, -n)
                if not ok or got != t:
                    bad('inverse-wrong', '%s (a business day) add(add(t, %d)=%s, %d) expected t observed %s' % (tl, n, fmt(r), -n, fmt(got)),
                        op='add-inverse', path=path, sign=sgn)
            if n in BUMP_NS:
                ok, got = impl(cal.dt_bump, t, '%db' % n)
                if not ok or got != e:
                    bad('dt_bump-wrong', "%s dt_bump(t, '%db') expected %s observed %s" % (tl, n, fmt(e), fmt(got)), op='dt_bump', path=path, sign=sgn)
                # the unit letter in upper case ('2B', '+2B', '-1B'): the same business-day bump of THIS calendar
                for sp in (('%dB' % n, '%+dB' % n) if n else ('0B',)):          # ('+0b' / '-0b' are spellings of their own: roll forward / backward)
                    ok, got = impl(cal.dt_bump, t, sp)
                    if not ok or got != e:
                        bad('dt_bump-wrong', "%s dt_bump(t, %r) expected %s observed %s" % (tl, sp, fmt(e), fmt(got)), op='dt_bump', path=path, sign=sgn, upper=True)
        # ---- an adjustment passed explicitly to add / bdays / dt_bump overrides the calendar's own (loop path and indexed path alike)
        for a in ADJS:
            if a == adj:
                continue
            tb = ref.walk(i, 3, a)
            for n in (-3, -2, -1, 0, 1, 2, 3):
                e = DTS[tb[n]]
                path = 'loop' if abs(n) <= 1 else 'table'
                ok, r = impl(cal.add, t, n, adj=a)
                if not ok or r != e:
                    bad('add-adj-wrong', '%s add(t, %d, adj=%r) on a calendar with adj=%r expected %s (the %d-th business day from adjust(t, %r)=%s) observed %s' % (
                        tl, n, a, adj, fmt(e), n, a, fmt(DTS[tb[0]]), fmt(r)), op='add-adj', path=path, a=a, bday=eb)
                    continue
                ok, got = impl(cal.bdays, t, r, a)
                if not ok or got != n:
                    bad('bdays-adj-wrong', '%s bdays(t, add(t, %d, adj=%r)=%s, adj=%r) expected %d observed %r' % (tl, n, a, fmt(r), a, n, got), op='bdays-adj', a=a, bday=eb)
                ok, got = impl(cal.dt_bump, t, '%db' % n, a)
                if not ok or got != e:
                    bad('dt_bump-adj-wrong', "%s dt_bump(t, '%db', adj=%r) expected %s observed %s" % (tl, n, a, fmt(e), fmt(got)), op='dt_bump-adj', path=path, a=a, bday=eb)
        # ---- single-step path against the indexed path
        for s in (1, -1):
            e = DTS[table[2 * s]]
            ok1, r1 = impl(cal.add, t, s)
            ok2, r2 = impl(cal.add, r1, s) if ok1 else (False, r1)
            ok3, r3 = impl(cal.add, t, 2 * s)
            if not (ok2 and ok3) or r2 != r3 or r3 != e:
                bad('two-step-wrong', '%s add(add(t, %d), %d) observed %s, add(t, %d) observed %s, expected both %s' % (
                    tl, s, s, fmt(r2), 2 * s, fmt(r3), fmt(e)), op='two-step', sign=s, bday=eb)

    # ---- adjust on a list / tuple / dict of dates with a per-call convention: element by element, with THAT convention
    for a in ADJS:
        out.sub()
        want = [DTS[ref.adjust(i, a)] for i in days]
        ok, got = impl(cal.adjust, [DTS[i] for i in days], a)
        ok2, got2 = impl(cal.adjust, tuple(DTS[i] for i in days), a)
        ok3, got3 = impl(cal.adjust, {'k%d' % j: DTS[i] for j, i in enumerate(days)}, a)
        if not ok or list(got) != want or not ok2 or list(got2) != want or not ok3 or not isinstance(got3, dict) or list(got3.values()) != want:
            bad('adjust-wrong', 'adjust(list / tuple / dict of the %d window days, %r) expected %s observed %s / %s / %s' % (len(days), a, fmt(want), fmt(got) if ok else got,
                                                                                                                  fmt(list(got2)) if ok2 else got2, got3), op='adjust', a=a, rolled=False, container=True)
    # ---- an endpoint of drange spelt as a business-day bump off the other one: it is the CALENDAR's own bump (holidays and weekend included)
    for b in days:
        tb = ref.walk(b, 3)
        eb_ = ref.adjust(b)
        for kk in (1, 2, 3):
            out.sub()
            want = [DTS[j] for j in ref.between(tb[-kk], eb_)]
            ok, got = impl(cal.drange, '-%db' % kk, DTS[b], '1b')
            if not ok or got != want:
                bad('drange-wrong', "drange('-%db', %s, '1b') expected %s observed %s" % (kk, fmt(DTS[b]), fmt(want), fmt(got)), op='drange-bump-start', a_bday=False, b_bday=ref.is_bday(b),
                    single=len(want) == 1)
            want = [DTS[j] for j in ref.between(eb_, tb[kk])]
            ok, got = impl(cal.drange, DTS[b], '%db' % kk, '1b')
            if not ok or got != want:
                bad('drange-wrong', "drange(%s, '%db', '1b') expected %s observed %s" % (fmt(DTS[b]), kk, fmt(want), fmt(got)), op='drange-bump-end', a_bday=ref.is_bday(b), b_bday=False,
                    single=len(want) == 1)
    # ---- the same calendar data under ANOTHER default convention (a copy made after this one has answered): the copy answers with its own convention
    for a2 in ADJS:
        if a2 == adj:
            continue
        try:
            c2 = cal(adj=a2)
            c3 = Calendar(cal)
            c3.adj = a2
        except Exception as e:
            bad('construct-raised', 'cal(adj=%r) / Calendar(cal) raised %s: %s' % (a2, type(e).__name__, e), copy=True)
            continue
        for i in days:
            out.sub()
            want = DTS[ref.adjust(i, a2)]
            for cname, cc in (('cal(adj=%r)' % a2, c2), ('Calendar(cal) with .adj = %r' % a2, c3)):
                ok, got = impl(cc.adjust, DTS[i])
                ok2, got2 = impl(cc.add, DTS[i], 0)
                if not ok or got != want or not ok2 or got2 != want:
                    bad('adjust-wrong', 't=%s %s (a copy of a calendar with adj=%r that has already answered): adjust(t) = %s, add(t, 0) = %s, expected %s' % (
                        fmt(DTS[i]), cname, adj, fmt(got), fmt(got2), fmt(want)), op='adjust', a=a2, rolled=False, copy=True)
        ok, got = impl(cal.adjust, DTS[days[0]])
        if not ok or got != DTS[ref.adjust(days[0])]:
            bad('adjust-wrong', 'after copies with another convention were used, the original calendar adjusts %s to %s' % (fmt(DTS[days[0]]), fmt(got)), op='adjust', a='own', rolled=False, copy=True)
    # ---- drange over every pair of the window
    for a, b in itertools.combinations_with_replacement(days, 2):
        ea, eb_ = ref.adjust(a), ref.adjust(b)
        e = [DTS[j] for j in ref.between(ea, eb_)]
        out.sub()
        ok, got = impl(cal.drange, DTS[a], DTS[b], '1b')
        if not ok or not isinstance(got, list) or got != e:
            bad('drange-wrong', "drange(%s, %s, '1b') expected %s observed %s" % (fmt(DTS[a]), fmt(DTS[b]), fmt(e), fmt(got)), op='drange',
                a_bday=ref.is_bday(a), b_bday=ref.is_bday(b), single=len(e) == 1)
        out.cls('drange-single' if len(e) == 1 else 'drange-many')
    return out


# ------------------------------------------------------------------------------------------------------------------
# registry (E1)

R_T0 = D(2023, 10, 2)
R_T1 = D(2024, 9, 30)
KEYS = ['A', 'B', None]
HSETS = {
    'H1': [D(2024, 3, 29), D(2024, 4, 1)],
    'H2': [D(2024, 4, 1), D(2024, 4, 2)],
    'E': [],
}
OBS_DAYS = [D(2024, 3, 28), D(2024, 3, 29), D(2024, 4, 1), D(2024, 4, 2)]
OBS_ADD = [D(2024, 3, 27), D(2024, 3, 28), D(2024, 3, 30)]
UNSPEC = 'unspecified'


def _kname(k):
    return 'None' if k is None else k


class Registry(BfsSuite):
    def __init__(self, depth):
        BfsSuite.__init__(
            self, 'registry', depth,
            rule="every history of <= %d operations from {calendar(k, H), calendar(k, H, t0, t1), calendar(k), calendar(Calendar(k, H, t0, t1))} "
                 "over keys {'A','B',None} and holiday sets {H1={03-29,04-01}, H2={04-01,04-02}, {}}, states merged on (registry contents "
                 "incl. range and populated tables, model); after every operation is_bday on 4 distinguishing days, add(t, 1), add(t, -1) "
                 "and (for objects on a short range) add(t, 2) for 3 days t, on the returned object and on every registered key with "
                 "specified holidays; non-trivial = histories that registered two different holiday sets (same key: overwrite, other "
                 "key: cross-talk)" % depth,
            bounds=dict(keys=3, holiday_sets=3, ops_per_state=30))

    def initial(self):
        return [[]]

    def ops(self, history):
        res = [['get', k] for k in KEYS]
        res += [['reg', k, h] for k in KEYS for h in ('H1', 'H2', 'E')]
        res += [['regr', k, h] for k in KEYS for h in ('H1', 'H2', 'E')]
        res += [['obj', k, h] for k in KEYS for h in ('H1', 'H2', 'E')]
        return res

    def visit(self, history):
        import pyg_base._drange as dr
        from pyg_base import Calendar, calendar
        dr.calendars.clear()                      # module-level state: every replayed history starts from an empty registry
        out = Out()
        model = {}                                # key -> frozenset of holiday datetimes | UNSPEC      (last writer wins)
        sets_seen = set()
        last_cls = 'initial'
        nh = len(history)
        for pos, op in enumerate(history):
            last = pos == nh - 1
            kind = op[0]
            what = None
            try:
                if kind == 'get':
                    k = op[1]
                    what = 'calendar(%r)' % (k,) if k is not None else 'calendar()'
                    cls = 'get-registered' if k in model and model[k] != UNSPEC else ('get-unspecified' if k in model else 'get-absent')
                    o = calendar(k) if k is not None else calendar()
                    if k not in model:
                        model[k] = UNSPEC
                    val = model[k]
                elif kind == 'reg':
                    k, h = op[1], op[2]
                    what = 'calendar(%r, %s)' % (k, h)
                    val = frozenset(HSETS[h])
                    cls = 'reg-new' if k not in model else ('reg-same' if model[k] == val else 'reg-overwrite')
                    o = calendar(k, list(HSETS[h]))
                    model[k] = val
                elif kind == 'regr':
                    k, h = op[1], op[2]
                    what = 'calendar(%r, %s, t0=2023-10-02, t1=2024-09-30)' % (k, h)
                    val = frozenset(HSETS[h])
                    cls = 'regr-new' if k not in model else ('regr-same' if model[k] == val else 'regr-overwrite')
                    o = calendar(k, list(HSETS[h]), t0=R_T0, t1=R_T1)
                    model[k] = val
                elif kind == 'obj':
                    k, h = op[1], op[2]
                    what = 'calendar(Calendar(%r, %s, t0, t1))' % (k, h)
                    val = frozenset(HSETS[h])
                    cls = 'obj-new' if k not in model else ('obj-same' if model[k] == val else 'obj-overwrite')
                    o = calendar(Calendar(k, holidays=list(HSETS[h]), t0=R_T0, t1=R_T1))
                    model[k] = val
                else:
                    raise ValueError('unknown op %r' % (op,))
            except Exception as e:
                if last:
                    out.call()
                    out.viol('registry-raised', '%s after %s raised %s: %s' % (what, history[:-1], type(e).__name__, e), op=kind)
                return out, None, False
            if val != UNSPEC:
                sets_seen.add(val)
            # observations (also on non-last steps: they populate the lookup tables, which is part of the state)
            views = [('%s -> the returned object' % what, 'returned', o, val)]
            for k2 in KEYS:
                if model.get(k2, UNSPEC) != UNSPEC:
                    views.append(('%s; then calendar(%r)' % (what, k2), 'by-key', k2, model[k2]))
            for vlabel, view, target, mval in views:
                if mval == UNSPEC:
                    continue
                try:
                    obj = target if view == 'returned' else calendar(target)
                    obs = [obj.is_bday(d) for d in OBS_DAYS] + [obj.add(t, n) for n in (1, -1) for t in OBS_ADD]
                    # the indexed path needs the lookup tables: 0.5 s to build on the default 1900..2300 range, so it is
                    # observed on every object whose own range (read as data) is short
                    short = (obj.t1 - obj.t0).days < 1100
                    if short:
                        obs += [obj.add(t, 2) for t in OBS_ADD]
                except Exception as e:
                    if last:
                        out.call()
                        out.viol('registry-observation-raised', 'history %s: %s: observing raised %s: %s' % (history, vlabel, type(e).__name__, e),
                                 op=kind, view=view)
                    return out, None, False
                if last:
                    out.call(1 + len(obs))
                    exp = _expected_obs(mval)[:len(obs)]
                    if obs != exp:
                        out.viol('registry-stale', 'history %s: %s should reflect holidays %s: is_bday%s + add(t,n)%s n=1,-1,2 expected %s observed %s' % (
                            history, vlabel, sorted(x.strftime('%m-%d') for x in mval), [d.strftime('%m-%d') for d in OBS_DAYS],
                            [d.strftime('%m-%d') for d in OBS_ADD], _show(exp), _show(obs)),
                            op=kind, view=view, part='is_bday' if obs[:len(OBS_DAYS)] != exp[:len(OBS_DAYS)] else 'add')
            last_cls = cls
        out.cls(last_cls)
        if len(sets_seen) >= 2:
            out.nontrivial()
        # canonical key: the real registry (holidays, weekend, range, tables populated?) + the model
        reg = []
        for k in KEYS:
            c = dr.calendars.get(k)
            m = model.get(k)
            ms = None if m is None else (m if m == UNSPEC else sorted(x.isoformat() for x in m))
            if c is None:
                reg.append([_kname(k), None, ms])
            else:
                reg.append([_kname(k), sorted(x.isoformat() for x in c.holidays), list(c.weekend), c.t0.isoformat(), c.t1.isoformat(),
                            c.get('dt2int') is not None, ms])
        extra = [k for k in dr.calendars if k not in KEYS]
        if extra and nh:
            out.viol('registry-extra-key', 'history %s left unexpected keys %r in the registry' % (history, extra), op=history[-1][0])
        return out, repr(reg), True


_EXP = {}


def _expected_obs(hset):
    if hset not in _EXP:
        # the registry suite runs on its own range; the reference tables cover it (R_T0, R_T1 inside T0..T1)
        ref = Ref(set(IDX[h] for h in hset), [5, 6], 'm')
        _EXP[hset] = [ref.is_bday(IDX[d]) for d in OBS_DAYS] + [DTS[ref.walk(IDX[t], 2)[n]] for n in (1, -1, 2) for t in OBS_ADD]
    return _EXP[hset]


def _show(obs):
    return [x.strftime('%m-%d') if isinstance(x, datetime.datetime) else x for x in obs]


def suites(tier, seed):
    if tier == 'quick':
        w, nsname, depth = 7, 'quick', 4
    else:
        w, nsname, depth = 10, 'all', 6
    ns = NS[nsname]
    return [
        Suite('configs', lambda: gen_configs(w, nsname), check_config,
              rule='every holiday subset (2^%d) of a %d-day window placed over 2024-03-29 (Friday, weekend, month end) and over 2023-12-29 (year end) '
                   'x 4 weekends x adj f/p/m; per configuration every t of the window +-5 days: is_bday, is_holiday, adjust f/p/m/own, add(t,n) + '
                   'bdays + inverse for %d values of n in [%d,%d], dt_bump(t,"nb") for %d of them, two-step vs indexed path in both directions, '
                   "drange '1b' for all t0<=t1; non-trivial = (configuration, t) with a non-weekend holiday adjacent to a weekend day or month "
                   'boundary within 8 days of t' % (w, w, len(ns), min(ns), max(ns), len([n for n in ns if n in BUMP_NS])),
              bounds=dict(window_days=w, holiday_subsets=2 ** w, placements=2, weekends=len(WEEKENDS), adj=len(ADJS), n_values=len(ns),
                          n_min=min(ns), n_max=max(ns), t_days=w + 2 * PAD)),
        Suite('range_ends', gen_range_ends, check_range_ends,
              rule='calendars over a four-week range (3 first days x 4 last days: business days and weekend days) x every holiday subset of the first two and last two days '
                   'of the range x 2 weekends x adj f/p: for every t of the range, as a midnight date and with a time of day (09:30), is_bday, adjust, add(t, n) + bdays for '
                   "every n in [-25, 25] whose result lies inside the range, drange '1b' up to the last days; non-trivial = a date involved IS the first or last day of the range",
              bounds=dict(range_days=32, first_days=len(RANGE_T0), last_days=len(RANGE_T1), holiday_subsets=16, n_min=-25, n_max=25)),
        Registry(depth),
    ]
