"""
C06 -- inc / exc partition a table, keep the columns and the row order (DESIGN.md section 4, C06).

Engine E2: every table of 0..N rows over a 7-value cell domain (x column), a row-id column y and a constant
column z, against every condition of a closed menu.  Oracle: a Python predicate filter.
"""
import itertools
import re

import numpy as np

from mc.engine import Suite, Out
from mc.codec import NAN, Decoder, cell_eq, is_nan, show

PROPERTY = 'C06'
ASSUMPTIONS = [
    'cells are None, ints, floats (incl. NaN), strings; NaN inside a value list is excluded (statement silent); +-inf cells and condition values only in suite extras, '
    'where only what holds under both readings of "NaN" (the statement\'s, and the library\'s documented is_nan = "nan or inf") is asserted: partition, order, columns, finite cells '
    'never match a NaN / infinite condition, the equal infinite cell always does',
    'conditions: one keyword value / list / None / NaN / compiled regex per column, conjunctions of them, the dict spelling, or ONE callable',
    'find_x is only checked when the selected x cells are not NaN (set() de-duplication of distinct NaN objects is unspecified)',
]

XCELLS = [None, 1, 2, 2.5, NAN(1), 'a', 'ab']          # NAN(1): one NaN object per *cell* (fresh ids per row below)
VALS = [None, 1, 2, 2.5, 'a', 'ab', 3]                # 3 matches nothing
REGEX = ['a', '^a$', 'zzz', 'b$']
FUNCS = ['x_is_none', 'y_even', 'true', 'false', 'x_str', 'xy', 'y_mod2', 'x_itself', 'y_or_none', 'x_len', 'kwonly', 'kwonly_nodefault', 'partial', 'wrapped_try', 'wrapped_ks', 'yx']


def _kwonly(x, *, y=-5):
    return x is not None and y >= 1


def _kwonly2(y, *, z):
    return y in (0, 3) and z == 'k'


def _three(x, y, q=7):
    return y >= q and x is None


def _funcs():
    return {
        'x_is_none': (lambda x: x is None, lambda r: r['x'] is None),
        'y_even': (lambda y: y % 2 == 0, lambda r: r['y'] % 2 == 0),
        'true': (lambda y: True, lambda r: True),
        'false': (lambda y: False, lambda r: False),
        'x_str': (lambda x, **kw: isinstance(x, str), lambda r: isinstance(r['x'], str)),
        'xy': (lambda x, y: y in (0, 2) and x is not None, lambda r: r['y'] in (0, 2) and r['x'] is not None),
        # predicates that answer with truthy / falsy values rather than bools (ints, the cell itself, None, a string length)
        'y_mod2': (lambda y: y % 2, lambda r: bool(r['y'] % 2)),
        'x_itself': (lambda x: x, lambda r: bool(r['x'])),
        'y_or_none': (lambda y: y or None, lambda r: bool(r['y'])),
        'x_len': (lambda x: len(x) - 1 if isinstance(x, str) else 0, lambda r: isinstance(r['x'], str) and len(r['x']) > 1),
        # a keyword-only parameter names a column like any other parameter does
        'kwonly': (_kwonly, lambda r: r['x'] is not None and r['y'] >= 1),
        'kwonly_nodefault': (_kwonly2, lambda r: r['y'] in (0, 3) and r['z'] == 'k'),
        'partial': (__import__('functools').partial(_three, q=1), lambda r: r['y'] >= 1 and r['x'] is None),
        # a predicate wrapped by one of the library's own decorators is a callable like any other (the wrapper objects happen to be dict subclasses)
        'wrapped_try': (__import__('pyg_base').try_false(lambda x: len(x) == 1), lambda r: isinstance(r['x'], str) and len(r['x']) == 1),
        'wrapped_ks': (__import__('pyg_base').kwargs_support(lambda y: y >= 1), lambda r: r['y'] >= 1),
        # parameters listed in ANOTHER order than the table holds its columns, and not interchangeable: each is bound by name
        'yx': (lambda y, x: x is None and y in (1, 3), lambda r: r['x'] is None and r['y'] in (1, 3)),
    }


def conditions():
    """the closed menu; each entry is a JSON-able descriptor"""
    conds = [['nocond']]
    for v in VALS:
        conds.append(['kw', {'x': ['val', v]}])
    conds.append(['kw', {'x': ['nan']}])
    conds.append(['kw', {'x': ['nan_np']}])
    for a, b in itertools.combinations(VALS[:6], 2):
        conds.append(['kw', {'x': ['list', [a, b]]}])
    for a in (1, 'a', None):
        conds.append(['kw', {'x': ['list', [a]]}])
    conds.append(['kw', {'x': ['list', []]}])
    conds.append(['kw', {'x': ['tuple', [1, 'a']]}])
    conds.append(['kw', {'x': ['tuple', [None, 2.5]]}])
    for one in (None, 1, 'a'):
        conds.append(['kw', {'x': ['tuple', [one]]}])          # a tuple of exactly one admissible value (None included)
    conds.append(['kw', {'x': ['list', [None]]}])
    for p in REGEX:
        conds.append(['kw', {'x': ['re', p]}])
    # a pattern compiled WITH FLAGS: the compiled object is the condition, flags included
    conds.append(['kw', {'x': ['rei', 'A']}])
    conds.append(['kw', {'x': ['rei', 'B$']}])
    conds.append(['dict', {'x': ['rei', 'aB']}])
    # conjunctions with a second column
    for xc in (['val', 1], ['val', None], ['nan'], ['list', [1, 'a']], ['re', 'a']):
        for yc in (['val', 0], ['list', [0, 2]], ['list', [1, 3]], ['val', 9]):
            conds.append(['kw', {'x': xc, 'y': yc}])
    conds.append(['kw', {'y': ['list', [0, 1]], 'z': ['val', 'k']}])
    conds.append(['kw', {'z': ['val', 'k']}])
    conds.append(['kw', {'z': ['val', 'q']}])
    # dict spelling
    for xc in (['val', 1], ['val', None], ['nan'], ['list', [2, 'ab']], ['re', '^a$']):
        conds.append(['dict', {'x': xc}])
    conds.append(['dict+kw', {'x': ['val', 1]}, {'y': ['list', [0, 1, 2]]}])
    for f in FUNCS:
        conds.append(['fn', f])
    return conds


CONDS = conditions()


def gen_tables(maxrows):
    for n in range(maxrows + 1):
        for xs in itertools.product(range(len(XCELLS)), repeat=n):
            yield {'x': list(xs)}


def _mk_value(c):
    t = c[0]
    if t == 'val':
        return c[1]
    if t == 'nan':
        return float('nan')
    if t == 'nan_np':
        return np.nan
    if t == 'list':
        return list(c[1])
    if t == 'tuple':
        return tuple(c[1])
    if t == 're':
        return re.compile(c[1])
    if t == 'rei':
        return re.compile(c[1], re.IGNORECASE)
    raise ValueError(c)


def _pred_one(c, cell):
    t = c[0]
    if t == 'val':
        v = c[1]
        if v is None:
            return cell is None
        return (not is_nan(cell)) and cell is not None and _pyeq(cell, v)
    if t in ('nan', 'nan_np'):
        return is_nan(cell)
    if t in ('list', 'tuple'):
        return any((cell is None and u is None) or (cell is not None and u is not None and not is_nan(cell) and _pyeq(cell, u))
                   for u in c[1])
    if t == 're':
        return isinstance(cell, str) and re.search(c[1], cell) is not None
    if t == 'rei':
        return isinstance(cell, str) and re.search(c[1], cell, re.IGNORECASE) is not None
    raise ValueError(c)


def _pyeq(a, b):
    if isinstance(a, str) != isinstance(b, str):
        return False
    return a == b


def _pred_kw(kw, row):
    return all(_pred_one(c, row[k]) for k, c in kw.items())


def check(case):
    from pyg_base import dictable
    out = Out()
    n = len(case['x'])
    xs = []
    for i in case['x']:
        c = XCELLS[i]
        xs.append(float('nan') if isinstance(c, dict) else c)       # a fresh NaN object per cell
    rows = [dict(x=xs[i], y=i, z='k') for i in range(n)]
    funcs = _funcs()

    def build():
        return dictable(x=list(xs), y=list(range(n)), z=['k'] * n)

    def same_rows(tbl, expect, what, ci):
        """tbl must hold exactly the rows `expect` (in order) with all three columns"""
        try:
            if set(tbl.keys()) != {'x', 'y', 'z'}:
                out.viol('columns-lost', '%s: columns %s' % (what, list(tbl.keys())), op=what.split('(')[0], empty=len(expect) == 0)
                return False
            got = list(tbl)
            if len(tbl) != len(expect) or len(got) != len(expect):
                out.viol('wrong-rows', '%s: expected y=%s got y=%s' % (what, [r['y'] for r in expect], list(tbl['y'])), op=what.split('(')[0])
                return False
            for g, e in zip(got, expect):
                if g['y'] != e['y'] or g['x'] is not e['x'] or g['z'] != e['z']:
                    out.viol('wrong-rows', '%s: expected y=%s got y=%s x=%s' % (what, [r['y'] for r in expect], list(tbl['y']), show(list(tbl['x']))),
                             op=what.split('(')[0])
                    return False
            return True
        except Exception as e:
            out.viol('result-broken', '%s: inspecting the result raised %s: %s' % (what, type(e).__name__, e), op=what.split('(')[0])
            return False

    for ci, cond in enumerate(CONDS):
        kind = cond[0]
        out.sub()
        # ---- reference
        if kind == 'nocond':
            pred = lambda r: True
        elif kind == 'kw':
            pred = lambda r, kw=cond[1]: _pred_kw(kw, r)
        elif kind == 'dict':
            pred = lambda r, kw=cond[1]: _pred_kw(kw, r)
        elif kind == 'dict+kw':
            pred = lambda r, a=cond[1], b=cond[2]: _pred_kw(a, r) and _pred_kw(b, r)
        else:
            pred = funcs[cond[1]][1]
        sel = [r for r in rows if pred(r)]
        rest = [r for r in rows if not pred(r)]

        def call(method, d):
            if kind == 'nocond':
                return getattr(d, method)()
            if kind == 'kw':
                return getattr(d, method)(**{k: _mk_value(c) for k, c in cond[1].items()})
            if kind == 'dict':
                fd = {k: _mk_value(c) for k, c in cond[1].items()}
                keys0 = list(fd)
                r_ = getattr(d, method)(fd)
                if list(fd) != keys0:
                    out.viol('filter-dict-changed', '%s(%s): the filter dict handed in now has the keys %s' % (method, cond, list(fd)), cond=kind)
                return r_
            if kind == 'dict+kw':
                fd = {k: _mk_value(c) for k, c in cond[1].items()}
                keys0 = list(fd)
                r_ = getattr(d, method)(fd, **{k: _mk_value(c) for k, c in cond[2].items()})
                if list(fd) != keys0:
                    out.viol('filter-dict-changed', '%s(%s): the filter dict handed in now has the keys %s (the keyword filters were merged into it)' % (method, cond, list(fd)), cond=kind)
                return r_
            return getattr(d, method)(funcs[cond[1]][0])

        d = build()
        snap = {k: list(v) for k, v in d.items()}
        label = 'cond#%d %s on x=%s' % (ci, cond, show(xs))
        try:
            inc = call('inc', d)
            out.call()
        except Exception as e:
            out.viol('inc-raised', '%s: inc raised %s: %s' % (label, type(e).__name__, e), cond=kind)
            continue
        try:
            if kind == 'nocond':
                exc = d.exc()
                exc_expect = rows          # exc with no condition excludes nothing
            else:
                exc = call('exc', d)
                exc_expect = rest
            out.call()
        except Exception as e:
            out.viol('exc-raised', '%s: exc raised %s: %s' % (label, type(e).__name__, e), cond=kind)
            continue
        ok = same_rows(inc, sel, 'inc(%s)' % label, ci)
        ok = same_rows(exc, exc_expect, 'exc(%s)' % label, ci) and ok
        # operand untouched
        if set(d.keys()) != set(snap) or any(len(d[k]) != len(snap[k]) or any(a is not b for a, b in zip(d[k], snap[k])) for k in snap):
            out.viol('operand-mutated', '%s: the table changed after inc/exc' % label, cond=kind)
        if ok and kind != 'nocond':
            # partition: interleaving inc and exc by row id restores the table
            merged = sorted(list(inc['y']) + list(exc['y']))
            if merged != list(range(n)):
                out.viol('not-a-partition', '%s: inc.y=%s exc.y=%s' % (label, list(inc['y']), list(exc['y'])), cond=kind)
            # idempotence
            try:
                again = call('inc', inc)
                out.call()
                same_rows(again, sel, 'inc(inc(%s))' % label, ci)
            except Exception as e:
                out.viol('inc-raised', '%s: inc(inc()) raised %s: %s' % (label, type(e).__name__, e), cond=kind, idem=True)
        if ok and kind in ('kw', 'nocond'):
            kwv = {} if kind == 'nocond' else {k: _mk_value(c) for k, c in cond[1].items()}
            # find_y / find_z / find_x
            for col in ('y', 'z', 'x'):
                vals = [r[col] for r in sel]
                if col == 'x' and any(is_nan(v) for v in vals):
                    continue
                distinct = []
                for v in vals:
                    if not any(v == u for u in distinct):
                        distinct.append(v)
                try:
                    got = getattr(d, 'find_' + col)(**kwv)
                    out.call()
                    raised = None
                except ValueError as e:
                    raised = e
                    out.call()
                except Exception as e:
                    out.viol('find-wrong-exception', '%s: find_%s raised %s: %s' % (label, col, type(e).__name__, e), col=col)
                    continue
                if len(distinct) == 1:
                    if raised is not None:
                        out.viol('find-raised', '%s: find_%s raised %s although the selected values %s are unique' % (label, col, raised, show(vals)), col=col)
                    elif not cell_eq(got, distinct[0]) or (got is None) != (distinct[0] is None):
                        out.viol('find-wrong', '%s: find_%s returned %r expected %r' % (label, col, got, distinct[0]), col=col)
                else:
                    if raised is None:
                        out.viol('find-not-raised', '%s: find_%s returned %r although selected values are %s' % (label, col, got, show(vals)), col=col,
                                 n=min(len(distinct), 2))
            # one_or_none
            try:
                got = d.one_or_none(**kwv)
                out.call()
                if len(sel) == 0 and got is not None:
                    out.viol('one_or_none-wrong', '%s: expected None got %r' % (label, got))
                elif len(sel) == 1 and (got is None or got['y'] != sel[0]['y']):
                    out.viol('one_or_none-wrong', '%s: expected row y=%s got %r' % (label, sel[0]['y'], got))
                elif len(sel) > 1:
                    out.viol('one_or_none-not-raised', '%s: %d rows selected but no ValueError' % (label, len(sel)))
            except ValueError as e:
                out.call()
                if len(sel) <= 1:
                    out.viol('one_or_none-raised', '%s: raised %s with %d selected rows' % (label, e, len(sel)))
        if 0 < len(sel) < n:
            out.nontrivial(ci)
            out.cls('some')
        elif n and len(sel) == n:
            out.cls('all')
        elif n:
            out.cls('none')
        else:
            out.cls('empty-table')
    return out


# ------------------------------------------------------------------------------------------------ suite extras
# (1) infinite cells / condition values.  The library reads a NaN condition as "not a finite number" (pyg_base.is_nan is documented as "nan or inf"), the
#     statement says NaN; the two readings differ on which side an infinite cell falls, so only what holds under BOTH is asserted: inc and exc partition the
#     table in original order with all columns, a finite / None / string cell never satisfies a NaN or infinite condition, and the cell equal to an infinite
#     condition value always does.
# (2) column names containing underscores: find_<col> is resolved by the whole name.

ECELLS = ['inf', '-inf', 'nan', 1.0, None, 'a']
ECONDS = [['kw', 'inf'], ['kw', '-inf'], ['kw', 'nan'], ['kw', ['inf']], ['kw', [1.0, 'inf']], ['dict', 'inf'], ['dict', '-inf'], ['kw+y', 'inf'], ['kw+y', 'nan']]


def _ecell(c):
    return float(c) if isinstance(c, str) and c in ('inf', '-inf', 'nan') else c


def gen_extras(maxrows):
    for n in range(maxrows + 1):
        for xs in itertools.product(range(len(ECELLS)), repeat=n):
            yield {'x': list(xs)}


def check_extras(case):
    from pyg_base import dictable
    out = Out()
    xs = [_ecell(ECELLS[i]) for i in case['x']]
    n = len(xs)
    finite = lambda v: not (isinstance(v, float) and (v != v or v in (float('inf'), float('-inf'))))
    for ci, (spell, cv) in enumerate(ECONDS):
        out.sub()
        val = [_ecell(u) for u in cv] if isinstance(cv, list) else _ecell(cv)
        label = '%s x=%r on x=%s' % (spell, val, show(xs))
        d = dictable(x=list(xs), y=list(range(n)), z=['k'] * n)
        try:
            if spell == 'kw':
                inc, exc = d.inc(x=val), d.exc(x=val)
            elif spell == 'dict':
                inc, exc = d.inc({'x': val}), d.exc({'x': val})
            else:
                inc, exc = d.inc(x=val, y=[0, 1]), d.exc(x=val, y=[0, 1])
            out.call(2)
            iy, ey = list(inc['y']), list(exc['y'])
        except Exception as e:
            out.viol('inc-raised', '%s: inc / exc raised %s: %s' % (label, type(e).__name__, e), cond='inf', suite='extras')
            continue
        if set(inc.keys()) != {'x', 'y', 'z'} or set(exc.keys()) != {'x', 'y', 'z'}:
            out.viol('columns-lost', '%s: columns %s / %s' % (label, list(inc.keys()), list(exc.keys())), op='inc/exc', empty=not (iy and ey))
            continue
        if sorted(iy + ey) != list(range(n)) or iy != sorted(iy) or ey != sorted(ey):
            out.viol('not-a-partition', '%s: inc.y=%s exc.y=%s' % (label, iy, ey), cond='inf')
            continue
        if any(inc['x'][k] is not xs[i] for k, i in enumerate(iy)) or any(exc['x'][k] is not xs[i] for k, i in enumerate(ey)):
            out.viol('wrong-rows', '%s: the x cells of the result rows are not those of the original rows' % label, op='inc/exc')
            continue
        for i in range(n):
            v = xs[i]
            ycond = spell != 'kw+y' or i in (0, 1)
            if isinstance(val, list):
                must_inc = any((u == v) for u in val if not (isinstance(u, float) and u != u)) and not (isinstance(v, float) and v != v) and v is not None and not isinstance(v, str)
                must_exc = not must_inc and (finite(v) or (isinstance(v, float) and v != v))       # in a value list an infinity is an ordinary value
            else:
                must_inc = isinstance(v, float) and v == val and ycond                              # (NaN == NaN is False: a NaN cell under a NaN condition is judged by the main suite)
                must_exc = finite(v) or not ycond
            if must_inc and i not in iy:
                out.viol('wrong-rows', '%s: row %d (x=%r) equals the condition value but is not in inc (inc.y=%s)' % (label, i, v, iy), op='inc', inf=True)
                break
            if must_exc and i not in ey:
                out.viol('wrong-rows', '%s: row %d (x=%r) cannot satisfy the condition but is in inc (inc.y=%s)' % (label, i, v, iy), op='inc', inf=True)
                break
        out.cls('some' if iy and ey else 'one-sided')
        if iy and ey:
            out.nontrivial(ci)
    # ---- int cells beyond the float mantissa against a float condition value: membership is exact (2**53 + 1 != 2.0**53)
    if n:
        big = [[2 ** 53, 2 ** 53 + 1, 1, None, 2.0 ** 53, 'a'][i] for i in case['x']]
        for ci, (val, vname) in enumerate(((2.0 ** 53, '2.0**53'), ([2.0 ** 53], '[2.0**53]'), ([1, 2.0 ** 53], '[1, 2.0**53]'), (2 ** 53 + 1, '2**53+1'), ([2 ** 53 + 1], '[2**53+1]'))):
            out.sub()
            d = dictable(x=list(big), y=list(range(n)))
            vals = val if isinstance(val, list) else [val]
            want = [i for i in range(n) if big[i] is not None and not isinstance(big[i], str) and any(big[i] == u for u in vals)]
            try:
                iy, ey = list(d.inc(x=val)['y']), list(d.exc(x=val)['y'])
                out.call(2)
            except Exception as e:
                out.viol('inc-raised', 'inc / exc(x=%s) on x=%s raised %s: %s' % (vname, big, type(e).__name__, e), cond='bigint', suite='extras')
                continue
            if iy != want or ey != [i for i in range(n) if i not in want]:
                out.viol('wrong-rows', 'inc(x=%s) on x=%s: inc.y=%s exc.y=%s, expected inc.y=%s (ints are compared exactly: 2**53+1 != 2.0**53)' % (vname, big, iy, ey, want), op='inc', bigint=True)
    # ---- rows that are EQUAL as records (1 / 1.0 / True, no row id column) under predicates that tell them apart: rows are positions, not values
    if 2 <= n <= 3:
        tcells = [[1, 1.0, True, 2, 2.0, 'a'][i] for i in case['x']]
        for pname, pred in (('isinstance(x, float)', lambda x: isinstance(x, float)), ('type(x) is int', lambda x: type(x) is int), ('x is True', lambda x: x is True)):
            out.sub()
            d = dictable(x=list(tcells), z=['k'] * n)
            try:
                ix, ex = list(d.inc(pred)['x']), list(d.exc(pred)['x'])
                out.call(2)
            except Exception as e:
                out.viol('inc-raised', 'inc / exc(lambda x: %s) on x=%r raised %s: %s' % (pname, tcells, type(e).__name__, e), cond='type-sensitive', suite='extras')
                continue
            wi, we = [c for c in tcells if pred(c)], [c for c in tcells if not pred(c)]
            same = lambda a, b: len(a) == len(b) and all(p is q for p, q in zip(a, b))
            if not same(ix, wi) or not same(ex, we):
                out.viol('wrong-rows', 'inc / exc(lambda x: %s) on x=%r (no other distinguishing column): inc.x=%r exc.x=%r, expected %r / %r' % (pname, tcells, ix, ex, wi, we),
                         op='inc/exc', equal_records=True)
    # ---- a column literally called 'key' filtered by keyword through find_<col>: a condition like any other
    if n:
        out.sub()
        kk = ['k%d' % i for i in range(n)]
        d = dictable({'key': list(kk), 'data': ['d%d' % i for i in range(n)], 'y': list(range(n))})
        for i in range(n):
            try:
                got = d.find_data(key=kk[i])
                got2 = d.find_y(key=[kk[i]])
                out.call(2)
                if got != 'd%d' % i or got2 != i:
                    out.viol('find-wrong', "table with columns key, data, y: find_data(key=%r) returned %r (expected %r), find_y(key=[%r]) returned %r (expected %d)" % (kk[i], got, 'd%d' % i, kk[i], got2, i),
                             col='key-column')
            except Exception as e:
                out.viol('find-wrong-exception', 'table with columns key, data, y: find_data(key=%r) raised %s: %s' % (kk[i], type(e).__name__, e), col='key-column')
        try:
            d.find_data(key='absent')
            out.viol('find-not-raised', "find_data(key='absent') returned although no row has that key", col='key-column', n=0)
        except ValueError:
            out.call()
        except Exception as e:
            out.viol('find-wrong-exception', "find_data(key='absent') raised %s: %s (expected ValueError)" % (type(e).__name__, e), col='key-column')
    # ---- columns that are called like the constructor's own parameters ('data', 'columns'): columns like any other, also when no row survives
    if n:
        out.sub()
        for cname in ('data', 'columns'):
            d = dictable({cname: ['d%d' % i for i in range(n)], 'b': list(range(n))})
            for cond, want in (({'b': -1}, []), ({'b': 0}, [0]), ({'b': list(range(n))}, list(range(n)))):
                try:
                    ri, re_ = d.inc(dict(cond)), d.exc(dict(cond))
                    out.call(2)
                    okc = set(ri.keys()) == {cname, 'b'} and set(re_.keys()) == {cname, 'b'}
                    if not okc or list(ri['b']) != want or list(re_['b']) != [i for i in range(n) if i not in want] or list(ri[cname]) != ['d%d' % i for i in want]:
                        out.viol('columns-lost' if not okc else 'wrong-rows', 'table with columns %r, b: inc(%r) has columns %s rows b=%s, exc has columns %s' % (
                            cname, cond, list(ri.keys()), list(ri.get('b', [])), list(re_.keys())), op='inc/exc', empty=not want, constructor_named_column=True)
                except Exception as e:
                    out.viol('inc-raised', 'table with columns %r, b: inc / exc(%r) raised %s: %s' % (cname, cond, type(e).__name__, e), cond='constructor-named-column', suite='extras')
    # ---- underscored column names
    if n:
        out.sub()
        ids = ['p%d' % i for i in range(n)]
        d = dictable({'a': list(range(n)), 'a_id': list(ids), 'b_c': [v if finite(v) else None for v in xs], 'a_id_x': ['q'] * n})
        for i in range(n):
            for col, want in (('a_id', ids[i]), ('b_c', d['b_c'][i]), ('a_id_x', 'q'), ('a', i)):
                try:
                    got = getattr(d, 'find_' + col)(a=i)
                    out.call()
                    if got != want or (got is None) != (want is None):
                        out.viol('find-wrong', 'table with columns a, a_id, b_c, a_id_x: find_%s(a=%d) returned %r expected %r' % (col, i, got, want), col='underscored')
                except Exception as e:
                    out.viol('find-wrong-exception', 'table with columns a, a_id, b_c, a_id_x: find_%s(a=%d) raised %s: %s' % (col, i, type(e).__name__, e), col='underscored')
    return out


def suites(tier, seed):
    maxrows = 4 if tier == 'quick' else 5
    return [Suite('inc_exc', lambda: gen_tables(maxrows), check,
                  rule='every x-column of length 0..%d over %d cell values x %d conditions (value, list, None, NaN, regex, conjunction, dict, '
                       'single callable, none); non-trivial = (table, condition) pairs selecting some but not all rows' % (maxrows, len(XCELLS), len(CONDS)),
                  bounds=dict(max_rows=maxrows, cell_values=len(XCELLS), conditions=len(CONDS))),
            Suite('extras', lambda: gen_extras(maxrows - 1), check_extras,
                  rule='every x-column of length 0..%d over {inf, -inf, NaN, 1.0, None, a} x %d conditions naming an infinite or NaN value (keyword, list, dict, conjunction): inc / exc '
                       'partition the table in order with all columns, finite cells never match, the equal infinite cell always does; find_<col> on column names containing '
                       'underscores (a, a_id, b_c, a_id_x); non-trivial = both sides non-empty' % (maxrows - 1, len(ECONDS)),
                  bounds=dict(max_rows=maxrows - 1, cell_values=len(ECELLS), conditions=len(ECONDS)))]
