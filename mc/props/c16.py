"""
C16 -- ulist / dictattr / Dict: ordered set and key algebra without side effects; Dict.__call__ evaluates in
dependency order whatever the keyword order and refuses circular definitions (DESIGN.md section 4, C16).

E2 suites:
  ulist      every list of length <= N over {1, 2, 3, 'a'} as constructor input  x  every such list (and ulist) as right
             operand, plus six single elements; operators + | - &, copy.  Oracle: first-occurrence ordered union /
             difference / intersection on plain Python lists.
  mappings   dictattr, Dict and a user subclass of Dict: every mapping over a key universe in every insertion order
             x every ordered selection of keys (universe + the absent 'z') for - and &, present-only selections for
             d[[...]] and d[k1, k2], d + other, relabel spellings, attribute access.  Oracle: plain dict arithmetic,
             class preserved, value objects identical, d equal to its snapshot.
  dict_call  Dict(p=1, q=2)(**definitions): every digraph without self-loops on m derived keys x every keyword
             order; the generated functions return (name, *values seen) so a result proves the evaluation order.
             Oracle: Kahn's algorithm on the parameter names; a cyclic graph must raise ValueError.  Every call
             runs under a deterministic fuel monitor (sys.monitoring LINE events on the code object of
             Dict.__call__ only) so a hang is a verdict, not a wait for the watchdog.
"""
import itertools
import sys

from mc.engine import Suite, Out
from mc.codec import show

PROPERTY = 'C16'
ASSUMPTIONS = [
    'ulist elements are hashable scalars (ints and strings); only the constructor, copy and the operators + | - & are '
    'covered (in-place list methods such as append / extend / += are outside the statement)',
    'a right operand is a list (or ulist) or a single non-list element; tuples count as single elements (a small block of tuple elements is enumerated)',
    'mapping keys are plain strings that neither contain a dot nor shadow a dict / dictattr attribute; keys with a leading underscore take part in attribute READ access only '
    '(keys, items, copy ...); values are ints or lists; a value that is itself a mapping only appears in the "nested" sub-cases, where d + other reaching into it and '
    "d - 'k.x' are only required to leave d and the nested mapping untouched and to keep d's keys (what the nested merge returns is C15)",
    "d - ('a', 'b') with a tuple is nested-path deletion and is excluded; d | other is not named by the statement and is not checked",
    'the right operand of d + other is a flat dict, dictattr, Dict or an instance of the user subclass of Dict',
    'key ORDER of a result is compared only for d - keys (the statement equates it with the ulist d.keys() - k); for &, d[[...]], '
    '+ and relabel the key set and the value objects are compared',
    'relabel: clashing relabels (two keys mapped to one name) are excluded; the list-of-new-names spelling is used only on '
    'mappings with >= 2 keys (a single bare string is the prefix/suffix spelling)',
    'attribute access on an absent key must raise (AttributeError or KeyError); nothing else is asserted about it',
    'Dict.__call__: self-referencing definitions (a = lambda a: ...) are excluded; a member or a definition literally called "key" (the name '
    'Dict passes the key being computed under) is an ordinary member: the mapping wins over that default, as Dict.apply documents; '
    'every parameter of a definition names a base key, a constant keyword or another definition',
    'Dict.__call__ non-termination is decided by a fuel bound of %d line events inside Dict.__call__ (a correct call on 6 '
    'definitions needs < 100); the engine watchdog remains as a safety net',
]

# ================================================================================================ ulist

ELEMS = [1, 2, 3, 'a', 'NAN']           # 'NAN' stands for ONE float('nan') object (hashable, a member by identity like in any Python list)
SINGLES = [1, 2, 3, 'a', 4, 'zz', 'NAN', None, 0, '']          # 4, 'zz' and the falsy None, 0, '' are never members (elements like any other)
_NAN = float('nan')


def _el(x):
    return _NAN if isinstance(x, str) and x == 'NAN' else x
_LISTS = {}


def _all_lists(maxlen):
    if maxlen not in _LISTS:
        res = []
        for n in range(maxlen + 1):
            for xs in itertools.product(ELEMS, repeat=n):
                res.append(list(xs))
        _LISTS[maxlen] = res
    return _LISTS[maxlen]


def _dedup(xs):
    res = []
    for x in xs:
        if x not in res:
            res.append(x)
    return res


def _same(got, exp):
    """same elements in the same order (and of the same type: 1 is not True, not 1.0)"""
    return len(got) == len(exp) and all(a is b or (type(a) is type(b) and a == b) for a, b in zip(got, exp))


_UOPS = [
    ('+', 'union', lambda u, x: u + x),
    ('|', 'union', lambda u, x: u | x),
    ('-', 'diff', lambda u, x: u - x),
    ('&', 'inter', lambda u, x: u & x),
]


def _uref(what, ref, xs):
    if what == 'union':
        return _dedup(ref + list(xs))
    if what == 'diff':
        return [e for e in ref if e not in xs]
    return [e for e in ref if e in xs]


def check_ulist(case):
    from pyg_base import ulist
    out = Out()
    xs = [_el(x) for x in case['u']]
    rmax = case['rmax']
    ref = _dedup(xs)
    src = list(xs)
    out.sub()
    try:
        u0 = ulist(src)
        out.call()
    except Exception as e:
        out.viol('ulist-raised', 'ulist(%r) raised %s: %s' % (xs, type(e).__name__, e), op='init')
        return out
    if type(u0) is not ulist or not _same(list(u0), ref):
        out.viol('ulist-construct', 'ulist(%r): expected %r (first occurrences, no duplicates) got %s %r' % (xs, ref, type(u0).__name__, list(u0)), op='init')
        return out
    if not _same(src, xs):
        out.viol('operand-mutated', 'ulist(%r) changed its argument to %r' % (xs, src), op='init')
    out.cls('init-dups' if len(ref) < len(xs) else 'init-unique')
    try:
        c = u0.copy()
        out.call()
        if type(c) is not ulist or not _same(list(c), ref) or c is u0:
            out.viol('ulist-copy', 'ulist(%r).copy(): expected a new ulist %r got %s %r%s' % (xs, ref, type(c).__name__, list(c), ' (the same object)' if c is u0 else ''), op='copy')
        if type(u0) is not ulist or not _same(list(u0), ref):
            out.viol('operand-mutated', 'ulist(%r).copy() changed the ulist to %r' % (xs, list(u0)), op='copy')
    except Exception as e:
        out.viol('ulist-raised', 'ulist(%r).copy() raised %s: %s' % (xs, type(e).__name__, e), op='copy')

    rights = [('list', x) for x in _all_lists(rmax)] + [('ulist', x) for x in _all_lists(2)]
    for ri, (rkind, x) in enumerate(rights):
        out.sub()
        u = ulist(list(xs))
        x = [_el(v) for v in x]
        if rkind == 'list':
            r = list(x)
        else:
            r = ulist(list(x))
        rsnap = list(r)
        rtype = type(r)
        for sym, what, f in _UOPS:
            exp = _uref(what, ref, rsnap)
            label = 'ulist(%r) %s %s%r' % (xs, sym, 'ulist' if rkind == 'ulist' else '', x)
            try:
                res = f(u, r)
                out.call()
            except Exception as e:
                out.viol('ulist-raised', '%s raised %s: %s' % (label, type(e).__name__, e), op=sym, right=rkind)
                continue
            if type(res) is not ulist:
                out.viol('ulist-result-type', '%s returned a %s (%r), expected a ulist' % (label, type(res).__name__, res), op=sym, right=rkind)
            elif not _same(list(res), exp):
                out.viol('ulist-wrong-result', '%s: expected %r got %r' % (label, exp, list(res)), op=sym, right=rkind,
                         dups=len(set(res)) < len(res))
            if type(u) is not ulist or not _same(list(u), ref):
                out.viol('operand-mutated', '%s changed the left operand from %r to %r' % (label, ref, list(u)), op=sym, right=rkind, side='left')
                u = ulist(list(xs))
            if type(r) is not rtype or not _same(list(r), rsnap):
                out.viol('operand-mutated', '%s changed the right operand from %r to %r' % (label, rsnap, list(r)), op=sym, right=rkind, side='right')
                r = rtype(list(rsnap))
            if what == 'union':
                out.cls('union-same' if _same(exp, ref) else 'union-new')
            elif what == 'diff':
                out.cls('diff-same' if _same(exp, ref) else ('diff-empty' if not exp else 'diff-some'))
            else:
                out.cls('inter-all' if _same(exp, ref) else ('inter-empty' if not exp else 'inter-some'))
            if not _same(exp, ref) and not _same(exp, rsnap):
                out.nontrivial('%s%d' % (sym, ri))

    for e in SINGLES:
        e = _el(e)
        out.sub()
        u = ulist(list(xs))
        present = e in ref
        for sym, what, f in _UOPS:
            exp = _uref(what, ref, [e])
            label = 'ulist(%r) %s %r' % (xs, sym, e)
            try:
                res = f(u, e)
                out.call()
            except Exception as ex:
                out.viol('ulist-raised', '%s raised %s: %s' % (label, type(ex).__name__, ex), op=sym, right='single')
                continue
            if type(res) is not ulist:
                out.viol('ulist-result-type', '%s returned a %s (%r), expected a ulist' % (label, type(res).__name__, res), op=sym, right='single')
            elif not _same(list(res), exp):
                out.viol('ulist-wrong-result', '%s: expected %r got %r' % (label, exp, list(res)), op=sym, right='single', present=present)
            if type(u) is not ulist or not _same(list(u), ref):
                out.viol('operand-mutated', '%s changed the left operand from %r to %r' % (label, ref, list(u)), op=sym, right='single', side='left')
                u = ulist(list(xs))
            if not _same(exp, ref) and not _same(exp, [e]):
                out.nontrivial('%s:%r' % (sym, e))
        out.cls('single-present' if present else 'single-absent')
    # ---- a tuple is a hashable single ELEMENT, not a list of elements: ulists holding tuples, a tuple as the right operand
    if len(xs) <= 2:
        tup_present, tup_absent = ('a', 1), ('zz', 9)
        base = list(xs) + [tup_present]
        refT = []
        for e_ in base:
            if e_ not in refT:
                refT.append(e_)
        for e in (tup_present, tup_absent, ('a',), (1, 'a')):
            out.sub()
            for sym, what, f in _UOPS:
                u = ulist(list(base))
                exp = _uref(what, refT, [e])
                label = 'ulist(%r) %s %r (a tuple element)' % (base, sym, e)
                try:
                    res = f(u, e)
                    out.call()
                except Exception as ex:
                    out.viol('ulist-raised', '%s raised %s: %s' % (label, type(ex).__name__, ex), op=sym, right='tuple')
                    continue
                if type(res) is not ulist or not _same(list(res), exp):
                    out.viol('ulist-wrong-result', '%s: expected %r got %r' % (label, exp, list(res)), op=sym, right='tuple', present=e in refT)
                if not _same(list(u), refT):
                    out.viol('operand-mutated', '%s changed the left operand' % label, op=sym, right='tuple', side='left')
    return out


def gen_ulist(lmax, rmax):
    for xs in _all_lists(lmax):
        yield {'u': xs, 'rmax': rmax}


# ================================================================================================ mappings

VAL = {'a': 1, 'b': 2, 'c': 3, 'd': 4}
ABSENT = 'z'
OTHER_KINDS = ['dict', 'dictattr', 'Dict', 'SubDict']          # class of the right operand of d + other
_CLS = {}
_SEL = {}


def _classes():
    if 'c' not in _CLS:
        from pyg_base import dictattr, Dict

        class SubDict(Dict):
            """a user subclass of Dict"""

        _CLS['c'] = {'dictattr': dictattr, 'Dict': Dict, 'SubDict': SubDict}
    return _CLS['c']


def _orderings(symbols):
    """every ordered selection without repetition (all permutations of all subsets), shortest first"""
    res = []
    for n in range(len(symbols) + 1):
        for p in itertools.permutations(symbols, n):
            res.append(list(p))
    return res


def _selections(universe):
    key = tuple(universe)
    if key not in _SEL:
        sels = _orderings(list(universe) + [ABSENT])
        a, b = universe[0], universe[1]
        sels += [[a, a], [a, ABSENT, a], [ABSENT, ABSENT], [b, a, b]]          # repeated entries
        _SEL[key] = sels
    return _SEL[key]


def _relabels(keys):
    """(label, call, old -> new) for every relabel spelling; `call` takes the mapping"""
    up = lambda k: k.upper()
    dbl = lambda k: k + k
    R = [
        ("relabel(a='x')", lambda d: d.relabel(a='x'), lambda k: {'a': 'x'}.get(k, k), 'kwargs'),
        ("relabel(a='x', b='y')", lambda d: d.relabel(a='x', b='y'), lambda k: {'a': 'x', 'b': 'y'}.get(k, k), 'kwargs'),
        ("relabel(z='y')", lambda d: d.relabel(z='y'), lambda k: k, 'kwargs-absent'),
        ("relabel(a='b', b='a')", lambda d: d.relabel(a='b', b='a'), lambda k: {'a': 'b', 'b': 'a'}.get(k, k), 'kwargs-swap'),
        ("relabel(c='a')", lambda d: d.relabel(c='a'), lambda k: {'c': 'a'}.get(k, k), 'kwargs'),
        ("rename(b='x')", lambda d: d.rename(b='x'), lambda k: {'b': 'x'}.get(k, k), 'kwargs'),
        ("relabel('x_')", lambda d: d.relabel('x_'), lambda k: 'x_' + k, 'prefix'),
        ("relabel('_x')", lambda d: d.relabel('_x'), lambda k: k + '_x', 'suffix'),
        ("relabel(upper)", lambda d: d.relabel(up), lambda k: k.upper(), 'callable'),
        ("relabel(lambda k: k + k)", lambda d: d.relabel(dbl), lambda k: k + k, 'callable'),
        ("relabel(upper, b='other')", lambda d: d.relabel(up, b='other'), lambda k: 'other' if k == 'b' else k.upper(), 'callable+kwargs'),
        ("relabel({'a': 'x'})", lambda d: d.relabel({'a': 'x'}), lambda k: {'a': 'x'}.get(k, k), 'dict'),
        # the empty string is a legal (if falsy) new name
        ("relabel(a='')", lambda d: d.relabel(a=''), lambda k: {'a': ''}.get(k, k), 'kwargs-empty-name'),
        ("relabel({'b': ''})", lambda d: d.relabel({'b': ''}), lambda k: {'b': ''}.get(k, k), 'dict-empty-name'),
        ("relabel(lambda k: '' if k == 'a' else k)", lambda d: d.relabel(lambda k: '' if k == 'a' else k), lambda k: '' if k == 'a' else k, 'callable-empty-name'),
    ]
    if len(keys) >= 2:
        new = ['N%d' % i for i in range(len(keys))]
        m = dict(zip(keys, new))
        R.append(('relabel(%r)' % (new,), lambda d: d.relabel(list(new)), lambda k: m[k], 'list'))
        R.append(('relabel(*%r)' % (new,), lambda d: d.relabel(*new), lambda k: m[k], 'args'))
    return R


def check_mapping(case):
    out = Out()
    cname = case['cls']
    cls = _classes()[cname]
    keys = list(case['keys'])
    mode = case['vals']
    universe = list(case['universe'])
    mk = (lambda n: n) if mode == 'int' else (lambda n: [n])
    vals = {k: mk(VAL[k]) for k in keys}
    snapshot = [(k, vals[k]) for k in keys]
    shown = '%s(%s)' % (cname, ', '.join('%s=%r' % kv for kv in snapshot))

    def fresh():
        return cls([(k, vals[k]) for k in keys])

    def raw(m):
        return list(dict.items(m))

    def intact(d, what, op):
        items = raw(d)
        ok = type(d) is cls and len(items) == len(keys) and all(i[0] == k and i[1] is vals[k] for i, k in zip(items, keys)) \
            and all(vals[k] == mk(VAL[k]) for k in keys)
        if not ok:
            out.viol('operand-mutated', '%s: d was %r and is %r afterwards' % (what, snapshot, items), op=op, cls=cname)
        return ok

    def result(res, exp, ordered, what, op, d, **sig):
        """res must be a new mapping of class cls holding exactly the pairs exp (value objects identical)"""
        if type(res) is not cls:
            out.viol('wrong-class', '%s returned a %s, expected a %s' % (what, type(res).__name__, cname), op=op, cls=cname, **sig)
            if not isinstance(res, dict):
                return
        if res is d:
            out.viol('not-a-new-mapping', '%s returned d itself' % what, op=op, cls=cname, **sig)
        got = raw(res)
        gk, ek = [k for k, _ in got], [k for k, _ in exp]
        if (gk != ek) if ordered else (sorted(gk) != sorted(ek)):
            out.viol('wrong-keys', '%s: expected keys %r%s got %r' % (what, ek, ' (in this order)' if ordered else '', gk), op=op, cls=cname,
                     order_only=sorted(gk) == sorted(ek), **sig)
            return
        e = dict(exp)
        for k, v in got:
            if v is not e[k]:
                out.viol('wrong-value', '%s: value of %r is %r, expected the object %r of the operand' % (what, k, v, e[k]), op=op, cls=cname, **sig)
                return

    # ---- construction (a harness sanity check: the universe must be what we think it is)
    d = fresh()
    if type(d) is not cls or not intact(d, 'constructing %s' % shown, 'init'):
        return out

    # ---- attribute access
    for k in universe + [ABSENT]:
        out.sub()
        d = fresh()
        try:
            got = getattr(d, k)
            out.call()
            if k not in vals:
                out.viol('attr-absent-returned', '%s.%s returned %r although the key is absent' % (shown, k, got), op='getattr', cls=cname)
            elif got is not d[k] or got is not vals[k]:
                out.viol('attr-mismatch', "%s.%s is %r but d[%r] is %r" % (shown, k, got, k, d[k]), op='getattr', cls=cname)
        except (AttributeError, KeyError) as e:
            out.call()
            if k in vals:
                out.viol('attr-raised', '%s.%s raised %s: %s' % (shown, k, type(e).__name__, e), op='getattr', cls=cname)
        except Exception as e:
            out.viol('attr-raised', '%s.%s raised %s: %s' % (shown, k, type(e).__name__, e), op='getattr', cls=cname, present=k in vals)
        intact(d, '%s.%s' % (shown, k), 'getattr')
        out.cls('attr-present' if k in vals else 'attr-absent')
    # ---- keys with a leading underscore are ordinary keys when READ as attributes (only setting / deleting _names is special-cased)
    und = {'_u': ['u'], '__w': ['w']}
    for k in ('_u', '__w', '_absent'):
        out.sub()
        d = cls(dict(list(vals.items()) + list(und.items())))
        try:
            got = getattr(d, k)
            out.call()
            if k not in und:
                out.viol('attr-absent-returned', '%s with keys _u, __w: .%s returned %r although the key is absent' % (shown, k, got), op='getattr', cls=cname, underscore=True)
            elif got is not d[k] or got is not und[k]:
                out.viol('attr-mismatch', "%s with keys _u, __w: .%s is %r but d[%r] is %r" % (shown, k, got, k, d[k]), op='getattr', cls=cname, underscore=True)
            elif not hasattr(d, k):
                out.viol('attr-mismatch', "%s with keys _u, __w: hasattr(d, %r) is False" % (shown, k), op='hasattr', cls=cname, underscore=True)
        except (AttributeError, KeyError) as e:
            out.call()
            if k in und:
                out.viol('attr-raised', '%s with keys _u, __w: .%s raised %s: %s although d[%r] works' % (shown, k, type(e).__name__, e, k), op='getattr', cls=cname, underscore=True)
        except Exception as e:
            out.viol('attr-raised', '%s with keys _u, __w: .%s raised %s: %s' % (shown, k, type(e).__name__, e), op='getattr', cls=cname, underscore=True)

    # ---- key selections
    for si, sel in enumerate(_selections(universe)):
        out.sub()
        npresent = sum(1 for k in sel if k in vals)
        skind = 'empty' if not sel else ('present' if npresent == len(sel) else ('absent' if npresent == 0 else 'mixed'))
        out.cls('select-' + skind)
        if skind == 'mixed':
            out.nontrivial('s%d' % si)
        spellings = [('list', list(sel))]
        if len(sel) == 1:
            spellings.append(('str', sel[0]))
        for spell, arg in spellings:
            argl = [arg] if spell == 'str' else arg
            # d - keys
            d = fresh()
            what = '%s - %r' % (shown, arg)
            try:
                res = d - arg
                out.call()
                result(res, [(k, vals[k]) for k in keys if k not in argl], True, what, '-', d, sel=skind, spell=spell)
            except Exception as e:
                out.viol('raised', '%s raised %s: %s' % (what, type(e).__name__, e), op='-', cls=cname, sel=skind, spell=spell, exc=type(e).__name__)
            intact(d, what, '-')
            # the statement's own spelling: (d - k).keys() == d.keys() - k
            d = fresh()
            try:
                lhs, rhs = (d - arg).keys(), d.keys() - arg
                out.call(2)
                if not (lhs == rhs) or list(lhs) != [k for k in keys if k not in argl]:
                    out.viol('keys-law', '(d - k).keys() = %r but d.keys() - k = %r for d = %s, k = %r' % (list(lhs), list(rhs), shown, arg),
                             op='-', cls=cname, sel=skind, spell=spell)
            except Exception as e:
                out.viol('raised', '(d - k).keys() == d.keys() - k raised %s: %s for d = %s, k = %r' % (type(e).__name__, e, shown, arg),
                         op='keys-law', cls=cname, sel=skind, spell=spell, exc=type(e).__name__)
            intact(d, what + ' / keys()', '-')
            # d & keys
            d = fresh()
            what = '%s & %r' % (shown, arg)
            try:
                res = d & arg
                out.call()
                result(res, [(k, vals[k]) for k in keys if k in argl], False, what, '&', d, sel=skind, spell=spell)
            except Exception as e:
                out.viol('raised', '%s raised %s: %s' % (what, type(e).__name__, e), op='&', cls=cname, sel=skind, spell=spell, exc=type(e).__name__)
            intact(d, what, '&')
            if spell == 'list' and not _same(arg, sel):
                out.viol('operand-mutated', 'the key list %r became %r' % (sel, arg), op='-&', cls=cname, side='right')
        if npresent == len(sel):
            # d[[k1, k2]] -> mapping of the same class
            d = fresh()
            arg = list(sel)
            what = '%s[%r]' % (shown, arg)
            try:
                res = d[arg]
                out.call()
                result(res, [(k, vals[k]) for k in keys if k in sel], False, what, '[list]', d, sel=skind)
            except Exception as e:
                out.viol('raised', '%s raised %s: %s' % (what, type(e).__name__, e), op='[list]', cls=cname, sel=skind, exc=type(e).__name__)
            intact(d, what, '[list]')
            if sel:
                # d[k1, k2] -> list of values
                d = fresh()
                arg = tuple(sel)
                what = '%s[%s]' % (shown, ', '.join(map(repr, sel)) + (',' if len(sel) == 1 else ''))
                try:
                    res = d[arg]
                    out.call()
                    if type(res) is not list or len(res) != len(sel) or any(v is not vals[k] for v, k in zip(res, sel)):
                        out.viol('wrong-values-list', '%s: expected the list %r got %r' % (what, [vals[k] for k in sel], res), op='[tuple]', cls=cname)
                except Exception as e:
                    out.viol('raised', '%s raised %s: %s' % (what, type(e).__name__, e), op='[tuple]', cls=cname, sel=skind, exc=type(e).__name__)
                intact(d, what, '[tuple]')

    # ---- d + other
    b = universe[1]
    n20, n26 = mk(20), mk(26)
    others = [[], [(b, n20)], [(ABSENT, n26)], [(b, n20), (ABSENT, n26)], [(ABSENT, n26), (b, n20)]]
    for oi, pairs in enumerate(others):
        for okind in OTHER_KINDS:
            out.sub()
            d = fresh()
            o = dict(pairs) if okind == 'dict' else _classes()[okind](pairs)
            npresent = sum(1 for k, _ in pairs if k in vals)
            okd = 'empty' if not pairs else ('present' if npresent == len(pairs) else ('absent' if npresent == 0 else 'mixed'))
            what = '%s + %s(%r)' % (shown, okind, dict(pairs))
            exp = dict(snapshot)
            exp.update(dict(pairs))
            try:
                res = d + o
                out.call()
                result(res, list(exp.items()), False, what, '+', d, other=okind, sel=okd)
                if isinstance(res, dict) and not (dict(res) == {**d, **o}):
                    out.viol('wrong-keys', '%s: d + o != {**d, **o}: got %r' % (what, dict(res)), op='+', cls=cname, other=okind, sel=okd, law=True)
            except Exception as e:
                out.viol('raised', '%s raised %s: %s' % (what, type(e).__name__, e), op='+', cls=cname, other=okind, sel=okd, exc=type(e).__name__)
            intact(d, what, '+')
            if raw(o) != pairs or any(x[1] is not y[1] for x, y in zip(raw(o), pairs)):
                out.viol('operand-mutated', '%s changed the right operand to %r' % (what, raw(o)), op='+', cls=cname, side='right')
            out.cls('add-' + okd)
            if okd == 'mixed':
                out.nontrivial('+%d%s' % (oi, okind))

    # ---- a value that is itself a mapping (plain dict, OrderedDict, dictattr, the user subclass): d + other reaching INTO it and d - 'k.x' (an absent key that
    #      spells a path into it) must leave d and the nested mapping exactly as they were; what the nested merge returns is C15's business
    if mode == 'obj' and keys:
        import collections
        k0 = keys[0]
        for nkind, ncls in (('dict', dict), ('OrderedDict', collections.OrderedDict), ('dictattr', _classes()['dictattr']), ('SubDict', _classes()['SubDict'])):
            for opname in ('+', '-str', '-list', '-scalar-head'):
                out.sub()
                inner = ncls([('x', 1), ('w', [2])])
                inner_items = list(dict.items(inner))
                pairs0 = [(k, (inner if k == k0 else vals[k])) for k in keys]
                if opname == '-scalar-head':
                    pairs0 = [(k, (3 if k == k0 else vals[k])) for k in keys]          # the head of the dotted name holds a scalar: the name is simply absent
                d = cls(pairs0)
                what = '%s with %s = %s(x=1, w=[2]) %s' % (shown, k0, nkind, {'+': "+ {%r: {'y': 5, 'x': 7}}" % k0, '-str': "- '%s.x'" % k0, '-list': "- ['%s.x', 'zz']" % k0,
                                                                         '-scalar-head': "(here %s = 3) - '%s.x'" % (k0, k0)}[opname])
                try:
                    if opname == '+':
                        res = d + {k0: {'y': 5, 'x': 7}}
                    elif opname == '-list':
                        res = d - ['%s.x' % k0, 'zz']
                    else:
                        res = d - ('%s.x' % k0)
                    out.call()
                except Exception as e:
                    out.viol('raised', '%s raised %s: %s' % (what, type(e).__name__, e), op=opname[0], cls=cname, nested=nkind, exc=type(e).__name__)
                    continue
                now = raw(d)
                same = len(now) == len(pairs0) and all(a[0] == b[0] and a[1] is b[1] for a, b in zip(now, pairs0))
                if opname != '-scalar-head':
                    same = same and list(dict.items(inner)) == inner_items and all(a[1] is b[1] for a, b in zip(dict.items(inner), inner_items))
                if not same:
                    out.viol('operand-mutated', '%s: d is now %r, its nested mapping %r (was %r)' % (what, now, list(dict.items(inner)), inner_items), op=opname[0], cls=cname, nested=nkind)
                elif opname != '+' and (type(res) is not cls or list(dict.keys(res)) != keys):
                    out.viol('wrong-keys', '%s: the name is not a key of d, expected a %s with the keys %r, got %s %r' % (what, cname, keys, type(res).__name__, list(dict.keys(res))),
                             op='-', cls=cname, sel='absent', spell='dotted', order_only=False)
                elif opname == '+' and not (isinstance(res, dict) and set(dict.keys(res)) == set(keys)):
                    out.viol('wrong-keys', '%s: result keys %r' % (what, list(dict.keys(res)) if isinstance(res, dict) else res), op='+', cls=cname, other='nested', sel='present', law=False)

    # ---- multi-key access d[k1, k2] where one of the names is a dotted path INTO a nested mapping: each name is read exactly as d[name] alone reads it
    if mode == 'obj' and len(keys) >= 2:
        import collections
        k0, k1 = keys[0], keys[-1]
        for nkind, ncls in (('dict', dict), ('dictattr', _classes()['dictattr'])):
            out.sub()
            inner = ncls([('x', 1), ('w', [2])])
            d = cls([(k, (inner if k == k0 else vals[k])) for k in keys])
            what = "%s with %s = %s(x=1, w=[2])" % (shown, k0, nkind)
            try:
                one = d['%s.x' % k0]
                got = d[k1, '%s.x' % k0]
                got2 = d['%s.w' % k0, '%s.x' % k0, k1]
                out.call(3)
                w_ = dict.__getitem__(inner, 'w')
                if one != 1 or not (isinstance(got, list) and len(got) == 2 and got[0] is vals[k1] and got[1] == 1) \
                        or not (isinstance(got2, list) and len(got2) == 3 and got2[0] is w_ and got2[1] == 1 and got2[2] is vals[k1]):
                    out.viol('wrong-value', "%s: d['%s.x'] = %r, d[%r, '%s.x'] = %r, d['%s.w', '%s.x', %r] = %r; expected 1, [d[%r], 1], [[2], 1, d[%r]]" % (
                        what, k0, one, k1, k0, got, k0, k0, k1, got2, k1, k1), op='getitem-multi', cls=cname, spell='dotted')
            except Exception as e:
                out.viol('raised', "%s: d[%r, '%s.x'] (multi-key access with a dotted path) raised %s: %s" % (what, k1, k0, type(e).__name__, e), op='getitem-multi', cls=cname, nested=nkind,
                         exc=type(e).__name__)

    # ---- relabel with a caller-owned dict of renames plus keyword renames: the caller's dict is an operand too
    if 'a' in keys and 'b' in keys:
        out.sub()
        d = fresh()
        m_ = {'a': 'x'}
        try:
            r1 = d.relabel(m_, b='y')
            r2 = d.relabel(m_)
            out.call(2)
            if m_ != {'a': 'x'}:
                out.viol('operand-mutated', "%s.relabel(m, b='y') changed the caller's dict m to %r" % (shown, m_), op='relabel', cls=cname, side='renames')
            elif set(r1.keys()) != set(['x', 'y'] + [k for k in keys if k not in ('a', 'b')]) or set(r2.keys()) != set(['x'] + [k for k in keys if k != 'a']):
                out.viol('wrong-keys', "%s.relabel(m, b='y') / relabel(m) with m={'a':'x'}: keys %s / %s" % (shown, list(r1.keys()), list(r2.keys())), op='relabel', cls=cname, how='dict+kwargs')
        except Exception as e:
            out.viol('raised', "%s.relabel(m, b='y') raised %s: %s" % (shown, type(e).__name__, e), op='relabel', cls=cname, how='dict+kwargs', exc=type(e).__name__)
    # ---- relabel
    for label, call, newname, rk in _relabels(keys):
        new = [newname(k) for k in keys]
        if len(set(new)) < len(new):
            continue                                    # clashing relabel: excluded
        out.sub()
        d = fresh()
        what = '%s.%s' % (shown, label)
        try:
            res = call(d)
            out.call()
            result(res, [(newname(k), vals[k]) for k in keys], False, what, 'relabel', d, how=rk)
        except Exception as e:
            out.viol('raised', '%s raised %s: %s' % (what, type(e).__name__, e), op='relabel', cls=cname, how=rk, exc=type(e).__name__)
        intact(d, what, 'relabel')
        changed = sum(1 for k, n in zip(keys, new) if k != n)
        out.cls('relabel-none' if changed == 0 else ('relabel-all' if changed == len(keys) else 'relabel-some'))
        if 0 < changed < len(keys):
            out.nontrivial('r' + label)
    return out


def gen_mappings(universe):
    for cname in ('dictattr', 'Dict', 'SubDict'):
        for keys in _orderings(universe):
            for mode in ('int', 'obj'):
                yield {'cls': cname, 'keys': keys, 'vals': mode, 'universe': list(universe)}


# ================================================================================================ Dict.__call__

FUEL = 3000
BASEDEPS = [['p'], ['q'], ['p', 'q'], [], ['q', 'p'], ['p']]          # which base keys definition #i reads
_MON = {}

ASSUMPTIONS[-1] = ASSUMPTIONS[-1] % FUEL


class NonTermination(BaseException):
    pass


_TOOL = 4                    # a free sys.monitoring tool id (0-2 and 5 are reserved names)


def _on_line(code, lineno):
    _MON['steps'] += 1
    if _MON['steps'] > FUEL:
        raise NonTermination()


def _trace_local(frame, event, arg):
    if event == 'line':
        _on_line(None, 0)
    return _trace_local


def _trace_global(frame, event, arg):
    return _trace_local if frame.f_code is _MON['code'] else None


def _fuelled(f):
    """run f() counting the line events inside the frames of Dict.__call__ (its code object is taken from the class under
    test); beyond FUEL events NonTermination is raised inside that frame.  sys.monitoring local events cost nothing outside
    that one code object; sys.settrace is the fallback for interpreters without it."""
    if 'code' not in _MON:
        fn = _classes()['Dict'].__dict__.get('__call__')
        _MON['code'] = getattr(fn, '__code__', None)
    code = _MON['code']
    _MON['steps'] = 0
    if code is None:
        return f()
    mon = getattr(sys, 'monitoring', None)
    if mon is not None:
        if mon.get_tool(_TOOL) is None:
            mon.use_tool_id(_TOOL, 'c16-fuel')
        mon.register_callback(_TOOL, mon.events.LINE, _on_line)
        mon.set_local_events(_TOOL, code, mon.events.LINE)
        try:
            return f()
        finally:
            mon.set_local_events(_TOOL, code, 0)
    old = sys.gettrace()
    sys.settrace(_trace_global)
    try:
        return f()
    finally:
        sys.settrace(old)


def _plan(case):
    """names of the definitions and the parameter list of each"""
    m, deps, variant = case['m'], case['deps'], case['variant']
    names = ['k%d' % (i + 1) for i in range(m)]
    base = [list(b) for b in BASEDEPS[:m]]
    if variant == 'override':
        names[0] = 'p'               # a definition that replaces the base key p; the others that read p depend on it
        base[0] = ['q']
    if variant == 'keydef':
        names[0] = 'key'             # a definition literally called 'key' (the name under which Dict hands a function the key being computed)
    params = {}
    for i, nm in enumerate(names):
        ps = _dedup([x for x in base[i] if x != nm] + [names[j] for j in deps[i]])
        if i % 2:
            ps.reverse()
        params[nm] = ps
    return names, params


def _model(names, params, env):
    """Kahn: values of the definitions in dependency order, or None when no such order exists"""
    val = {}
    remaining = list(names)
    while remaining:
        ready = [n for n in remaining if not any(p in remaining for p in params[n])]
        if not ready:
            return None
        for n in ready:
            val[n] = (n,) + tuple(val[p] if p in val else env[p] for p in params[n])
        remaining = [n for n in remaining if n not in ready]
    return val


def _source(name, ps):
    return 'lambda %s: (%r, %s)' % (', '.join(ps), name, ''.join(p + ', ' for p in ps))


def check_call(case):
    out = Out()
    cname = case['cls']
    cls = _classes()[cname]
    Dict = _classes()['Dict']
    variant = case['variant']
    names, params = _plan(case)
    if variant == 'defaulted':
        # every parameter naming ANOTHER DEFINITION carries a Python default: it is a dependency all the same (the mapping's value wins over the default)
        params = {n: [x for x in ps if x not in names] + [x for x in ps if x in names] for n, ps in params.items()}
        _srcd = lambda name, ps: 'lambda %s: (%r, %s)' % (', '.join(x if x not in names else "%s='dflt'" % x for x in ps), name, ''.join(x + ', ' for x in ps))
        src = {n: _srcd(n, params[n]) for n in names}
    else:
        src = {n: _source(n, params[n]) for n in names}
    funcs = {n: eval(src[n], {}) for n in names}
    consts = {'q': 20} if variant == 'const' else {}
    if variant == 'mapconst':
        # constants that are themselves MAPPINGS: q replaces the mapping-valued member q (it is not merged into it), r is a new member holding an empty mapping
        consts = {'q': {'y': 3}, 'r': {}}
    P = 'p'
    if variant == 'keymember':       # the mapping's own member is called 'key': a function asking for `key` gets the member, like any other name
        P = 'key'
        params = {n: [P if x == 'p' else x for x in ps] for n, ps in params.items()}
        src = {n: _source(n, params[n]) for n in names}
        funcs = {n: eval(src[n], {}) for n in names}
    INNER = {'x': 1}
    base0 = {P: 1, 'q': 2}
    if variant == 'mapconst':
        base0 = {P: 1, 'q': {'x': 1, 'y': 2}, 'inner': INNER}
    env = dict(base0)
    env.update(consts)
    val = _model(names, params, env)
    expect = None
    if val is not None:
        expect = dict(env)
        expect.update(val)
    has_edge = any(p in names for n in names for p in params[n])
    items = names + list(consts)
    orders = [list(p) for p in itertools.permutations(items)]          # every keyword order
    out.cls(('acyclic' if has_edge else 'acyclic-no-edges') if val is not None else 'cyclic')
    sig = dict(variant=variant, cyclic=val is None)
    for oi, order in enumerate(orders):
        out.sub()
        if has_edge:
            out.nontrivial('o%d' % oi)
        d = cls(**{k_: (dict(v_) if isinstance(v_, dict) and v_ is not INNER else v_) for k_, v_ in base0.items()})
        kwargs = {}
        for n in order:
            kwargs[n] = funcs[n] if n in funcs else (dict(consts[n]) if isinstance(consts[n], dict) else consts[n])
        what = '%s(%s)(%s)' % (cname, ', '.join('%s=%r' % kv for kv in base0.items()), ', '.join('%s=%s' % (n, src[n] if n in src else repr(consts[n])) for n in order))
        try:
            res = _fuelled(lambda: d(**kwargs))
            out.call()
            raised = None
        except NonTermination:
            out.viol('call-does-not-terminate', '%s: more than %d line events inside Dict.__call__ (expected %s)' % (
                what, FUEL, 'ValueError: circular definitions' if val is None else show(expect)), **sig)
            return out
        except ValueError as e:
            out.call()
            raised = e
        except Exception as e:
            out.viol('call-wrong-exception', '%s raised %s: %s (expected %s)' % (
                what, type(e).__name__, e, 'ValueError' if val is None else show(expect)), **sig)
            continue
        if val is None:
            if raised is None:
                out.viol('cycle-not-detected', '%s: circular definitions, expected ValueError, got %s' % (what, show(dict(res))), **sig)
        elif raised is not None:
            out.viol('call-raised', '%s raised ValueError: %s; the definitions are not circular, expected %s' % (what, raised, show(expect)), **sig)
        else:
            if not isinstance(res, Dict):
                out.viol('call-result-type', '%s returned a %s' % (what, type(res).__name__), **sig)
            if not isinstance(res, dict) or not (dict(res) == expect):
                out.viol('call-wrong-result', '%s: expected %s got %s' % (what, show(expect), show(dict(res) if isinstance(res, dict) else res)), **sig)
            if res is d:
                out.viol('not-a-new-mapping', '%s returned the Dict it was called on' % what, op='call', **sig)
            if variant == 'mapconst' and isinstance(res, dict) and res.get('inner') is not INNER:
                out.viol('call-wrong-result', '%s: the member `inner`, which the call does not mention, is no longer the same object in the result' % what, identity=True, **sig)
        if type(d) is not cls or list(dict.items(d)) != list(base0.items()) or (variant == 'mapconst' and dict.__getitem__(d, 'inner') is not INNER):
            out.viol('operand-mutated', '%s changed the Dict it was called on to %r' % (what, dict(d)), op='call', **sig)
    return out


def _digraphs(m):
    """every digraph without self-loops on m nodes as dependency lists, fewest edges first"""
    pairs = [(i, j) for i in range(m) for j in range(m) if i != j]
    for mask in sorted(range(1 << len(pairs)), key=lambda x: (bin(x).count('1'), x)):
        deps = [[] for _ in range(m)]
        for b, (i, j) in enumerate(pairs):
            if mask >> b & 1:
                deps[i].append(j)
        yield deps


def _families(m):
    """structured graphs on m nodes: (name, dependency lists); an edge (i, j) = definition i reads definition j"""
    F = []

    def add(name, edges):
        deps = [[] for _ in range(m)]
        for i, j in edges:
            if i != j and j not in deps[i]:
                deps[i].append(j)
        F.append((name, deps))

    def cyc(lo, n):
        return [(lo + i, lo + (i + 1) % n) for i in range(n)]

    diamond = [(1, 0), (2, 0), (3, 1), (3, 2)]
    add('empty', [])
    add('chain', [(i, i - 1) for i in range(1, m)])
    add('chain-reversed', [(i, i + 1) for i in range(m - 1)])
    add('out-tree', [(i, (i - 1) // 2) for i in range(1, m)])
    add('in-tree', [((i - 1) // 2, i) for i in range(1, m)])
    add('star-out', [(i, 0) for i in range(1, m)])
    add('star-in', [(0, i) for i in range(1, m)])
    add('diamond+fan', diamond + [(i, 3) for i in range(4, m)])
    add('diamond+chain', diamond + [(i, i - 1) for i in range(4, m)])
    add('double-diamond', diamond + [(4, 3)] + ([(5, 3), (5, 4)] if m > 5 else []))
    add('total-order', [(i, j) for i in range(m) for j in range(i)])
    add('two-layers', [(i, j) for i in range(m // 2, m) for j in range(m // 2)])
    add('diamond+back-edge', diamond + [(0, 3)])
    for n in range(2, m + 1):
        add('cycle%d' % n, cyc(0, n))
    for n in range(2, m):
        add('cycle%d+tail-reading-it' % n, cyc(0, n) + [(i, i - 1) for i in range(n, m)])
        add('cycle%d-reading-a-tail' % n, cyc(0, n) + [(i - 1, i) for i in range(n, m)])
    for a in range(2, m - 1):
        for b in range(a, m - a + 1):
            add('cycles%d+%d' % (a, b), cyc(0, a) + cyc(a, b))
    return F


def gen_calls(tier):
    quick = tier == 'quick'
    for m in range(1, 5):
        graphs = list(_digraphs(m))
        for variant in ('plain', 'override', 'const', 'keymember', 'keydef', 'defaulted', 'mapconst'):          # variant outside the graph loop: neighbouring cases cost the same
            if m == 4 and quick and variant != 'plain':
                continue
            if variant == 'mapconst' and m > 2:
                continue
            for cname in (('Dict', 'SubDict') if ((m <= 3 and variant[:3] != 'key' and variant != 'defaulted') or (variant == 'plain' and not quick)) else ('Dict',)):
                for deps in graphs:
                    yield {'m': m, 'deps': deps, 'variant': variant, 'cls': cname}
    if tier != 'quick':
        for m in (5, 6):
            for name, deps in _families(m):
                for variant, cname in (('plain', 'Dict'), ('override', 'SubDict')):
                    yield {'m': m, 'deps': deps, 'variant': variant, 'cls': cname, 'family': name}


# ================================================================================================ suites

def suites(tier, seed):
    quick = tier == 'quick'
    lmax, rmax = (4, 3) if quick else (5, 4)
    universe = ['a', 'b', 'c'] if quick else ['a', 'b', 'c', 'd']
    nsel = len(_selections(universe))
    return [
        Suite('ulist', lambda: gen_ulist(lmax, rmax), check_ulist,
              rule='every list of length <= %d over %r as constructor input x every list of length <= %d (and every ulist built from <= 2 '
                   'elements) as right operand x {+, |, -, &}, x the single elements %r, plus copy(); non-trivial = the result differs from '
                   'both operands' % (lmax, ELEMS, rmax, SINGLES),
              bounds=dict(left_max_len=lmax, right_max_len=rmax, elements=len(ELEMS), singles=len(SINGLES))),
        Suite('mappings', lambda: gen_mappings(universe), check_mapping,
              rule='dictattr, Dict and a user subclass x every mapping over keys %r in every insertion order x int / list values x %d ordered '
                   "key selections over the keys + absent 'z' (list and single-string spellings) for -, &, the keys() law; present-only "
                   'selections for d[[...]] and d[k1, k2]; 5 others x 4 classes of other for +; 12-14 relabel spellings; attribute access; non-trivial = '
                   'selections / others / relabels touching some but not all keys (mixed present and absent)' % (universe, nsel),
              bounds=dict(keys=len(universe), selections=nsel, classes=3)),
        Suite('dict_call', lambda: gen_calls(tier), check_call,
              rule='Dict(p=1, q=2)(**definitions): every digraph without self-loops on m <= 4 definitions x every keyword order (m!, and (m+1)! '
                   'with a constant keyword q=20) x {plain, a definition overriding base key p, a constant keyword, the base key p called "key", a definition called "key"}%s; non-trivial = (graph, '
                   'order) pairs with at least one edge among the definitions' % (
                       ' (m = 4: plain only)' if quick else '; m = 5, 6: %d structured families (chains, trees, stars, diamonds, total order, every '
                       'single cycle, cycle with tail in both directions, two disjoint cycles) x all 120 / 720 orders' % len(_families(6))),
              bounds=dict(max_definitions_exhaustive=4, max_definitions_all_variants=3 if quick else 4, max_definitions_families=0 if quick else 6, fuel=FUEL)),
    ]
