"""
C04 -- dt() maps every supported spelling of an instant to the same datetime (DESIGN.md section 4, C04).

Engine E2 over the library's whole supported range, one full 400-year Gregorian cycle [1900-01-01, 2300-01-01).

suite `spellings`  one case = one (year, month) block with an explicit list of days; for every day every spelling
                   of the closed menu below is handed to dt()/ymd() and compared with the `datetime` constructor.
                   Days with day > 12 are additionally written in the OTHER dialect's order and must be rejected
                   with ValueError.
suite `overflow`   one case = one (year, month argument m in [-36, 48]); dt(y, m, d) for every d in [-400, 400]
                   against datetime(Y, M, 1) + (d - 1) days, (Y, M) = divmod-normalised month.

Oracle: datetime / timedelta arithmetic only; English month names come from the table below (no strftime, no
locale); nothing depends on the run date (every string carries year, month and day).
"""
import datetime
import random

import numpy as np
import pandas as pd

from mc.engine import Suite, Out

PROPERTY = 'C04'
ASSUMPTIONS = [
    'years 1900..2299 only (TMIN..TMAX, one Gregorian cycle); four-digit years only -- two-digit years are excluded',
    'dt() with no argument, dt(bump) and small integers (offsets from today), excel serial numbers, utc timestamps and bare '
    'years are excluded (relative to now, or not named by the statement); integers are only the 8-digit yyyymmdd and the '
    'proleptic ordinal of a day in range, which num2dt separates by magnitude',
    'time zones (tzinfo argument, aware datetimes) are excluded',
    'numeric day-month-year / month-day-year strings and month-name strings are zero padded to two digits where numeric and '
    'carry a time of day to the second only: microseconds in these spellings are excluded (the dispatcher documents h/m/s); '
    'microsecond resolution is asserted for datetime, pandas Timestamp, numpy us/ns, ISO strings and dt2str',
    'unpadded numeric strings (5.3.2004) are outside the alphabet',
    'numpy datetime64[ns] only for years <= 2261 (numpy itself overflows beyond 2262-04-11); units other than D/s/us/ns excluded',
    'wrong-dialect rejection is asserted only for day > 12 (the unambiguous case named by the statement), date-only strings',
    'overflow arithmetic: integer month in [-36, 48] and integer day in [-400, 400], three-argument form dt(y, m, d) only; '
    'month names / futures codes as the month argument are excluded',
]

Y0, Y1 = 1900, 2300                      # [Y0, Y1)
BOUNDARY_YEARS = [1900, 1901, 1999, 2000, 2001, 2004, 2096, 2100, 2101, 2200, 2299]
QUICK_DAYS = [1, 12, 13, 28, 29, 30, 31]
OVERFLOW_QUICK_YEARS = [1900, 2000, 2100, 2299]
M_LO, M_HI = -36, 48
D_LO, D_HI = -400, 400
NS_LAST_YEAR = 2261
SEPS = ['-', '/', '.', ' ']
MONTHS = ['January', 'February', 'March', 'April', 'May', 'June', 'July', 'August', 'September', 'October', 'November',
          'December']
# (hour, minute, second, microsecond): boundary times of day for the lossless spellings
TIMES = [
    (0, 0, 0, 0),
    (0, 0, 0, 1),
    (0, 0, 1, 0),
    (11, 59, 59, 999999),
    (12, 0, 0, 0),
    (23, 59, 59, 0),
    (23, 59, 59, 999999),
    (9, 8, 7, 60504),
]
DATETIME = datetime.datetime
DAY = datetime.timedelta(days=1)


def is_leap(y):
    return y % 4 == 0 and (y % 100 != 0 or y % 400 == 0)


def month_len(y, m):
    return [31, 29 if is_leap(y) else 28, 31, 30, 31, 30, 31, 31, 30, 31, 30, 31][m - 1]


def is_boundary_day(y, m, d):
    """days on which all 8 times of day are used: new year's day, year end, leap day and its neighbours"""
    return (m, d) in ((1, 1), (12, 31), (2, 28), (2, 29), (3, 1))


# ------------------------------------------------------------------------------------------------
# suite `spellings`

def quick_full_years(seed):
    rest = [y for y in range(Y0, Y1) if y not in BOUNDARY_YEARS]
    extra = random.Random(int(seed)).sample(rest, 3)
    return sorted(BOUNDARY_YEARS + extra)


def gen_days(tier, seed):
    full = set(range(Y0, Y1)) if tier == 'thorough' else set(quick_full_years(seed))

    def gen():
        for y in range(Y0, Y1):
            for m in range(1, 13):
                n = month_len(y, m)
                days = list(range(1, n + 1)) if y in full else [d for d in QUICK_DAYS if d <= n]
                yield {'y': y, 'm': m, 'days': days}
    return gen


class _Day:
    """runs the spellings of one calendar day; collects into `out`"""

    def __init__(self, out, y, m, d):
        self.out = out
        self.y, self.m, self.d = y, m, d
        self.klass = 'day>12' if d > 12 else 'day<=12'

    def same(self, spelling, shown, expected, fn, *args, **kwargs):
        """fn(*args, **kwargs) must return a datetime equal to `expected`"""
        out = self.out
        out.sub()
        try:
            got = fn(*args, **kwargs)
        except Exception as e:
            out.call()
            out.viol('raised', '%s [%s]: expected %r, raised %s: %s' % (shown, spelling, expected, type(e).__name__, e),
                     spelling=spelling, day=self.klass)
            return
        out.call()
        if not isinstance(got, DATETIME):
            out.viol('not-a-datetime', '%s [%s]: expected %r, observed %r of type %s' % (shown, spelling, expected, got, type(got).__name__),
                     spelling=spelling, day=self.klass)
        elif got.tzinfo is not None or not (got == expected):
            out.viol('wrong-datetime', '%s [%s]: expected %r, observed %r' % (shown, spelling, expected, got),
                     spelling=spelling, day=self.klass)

    def rejected(self, spelling, shown, fn, *args, **kwargs):
        """fn(*args, **kwargs) must raise ValueError"""
        out = self.out
        out.sub()
        try:
            got = fn(*args, **kwargs)
        except ValueError:
            out.call()
            out.cls('reject')
            return
        except Exception as e:
            out.call()
            out.viol('wrong-exception', '%s [%s]: expected ValueError, raised %s: %s' % (shown, spelling, type(e).__name__, e),
                     spelling=spelling)
            return
        out.call()
        out.viol('not-rejected', '%s [%s]: expected ValueError (day %d > 12 written in the other dialect), observed %r' % (
            shown, spelling, self.d, got), spelling=spelling)


def _check_day(out, dt, ymd, dt2str, y, m, d):
    D = _Day(out, y, m, d)
    same = D.same
    t0 = DATETIME(y, m, d)
    date = datetime.date(y, m, d)
    ordinal = date.toordinal()
    leap_day = (m, d) == (2, 29)
    century = y % 100 == 0
    out.cls(D.klass)
    if leap_day:
        out.cls('leap-day')
    if century:
        out.cls('century')
    if d == m:
        out.cls('day==month')
    if d != m or leap_day or century:
        out.nontrivial('%d' % d)
    full, abbr = MONTHS[m - 1], MONTHS[m - 1][:3]

    # ---- date-only spellings -------------------------------------------------------------------
    same('datetime', 'dt(%r)' % (t0,), t0, dt, DATETIME(y, m, d))
    same('date', 'dt(%r)' % (date,), t0, dt, date)
    same('y,m,d', 'dt(%d, %d, %d)' % (y, m, d), t0, dt, y, m, d)
    n = y * 10000 + m * 100 + d
    same('int yyyymmdd', 'dt(%d)' % n, t0, dt, n)
    same('int ordinal', 'dt(%d)' % ordinal, t0, dt, ordinal)
    same('np.datetime64[D]', "dt(np.datetime64('%s', 'D'))" % date.isoformat(), t0, dt, np.datetime64(date, 'D'))
    same('pd.Timestamp', "dt(pd.Timestamp(%r))" % (t0,), t0, dt, pd.Timestamp(t0))
    s_iso = '%04d-%02d-%02d' % (y, m, d)
    s_num = '%04d%02d%02d' % (y, m, d)
    for dialect in ('uk', 'us'):
        same('%s:yyyy-mm-dd' % dialect, 'dt(%r, dialect=%r)' % (s_iso, dialect), t0, dt, s_iso, dialect=dialect)
        same('%s:yyyymmdd' % dialect, 'dt(%r, dialect=%r)' % (s_num, dialect), t0, dt, s_num, dialect=dialect)
    same('uk:yyyy-mm-dd (default dialect)', 'dt(%r)' % s_iso, t0, dt, s_iso)
    for sep in SEPS:
        s = '%02d%s%02d%s%04d' % (d, sep, m, sep, y)
        same('uk:dd%smm%syyyy' % (sep, sep), 'dt(%r)' % s, t0, dt, s)           # uk is the default dialect
        s = '%02d%s%02d%s%04d' % (m, sep, d, sep, y)
        same('us:mm%sdd%syyyy' % (sep, sep), "dt(%r, dialect='us')" % s, t0, dt, s, dialect='us')
        if sep == '/':
            same('US:mm/dd/yyyy (upper-case dialect)', "dt(%r, dialect='US')" % s, t0, dt, s, dialect='US')          # the spelling the library's own docstring uses
            same('ymd US:mm/dd/yyyy', "ymd(%r, dialect='US')" % s, t0, ymd, s, dialect='US')
    names = [
        ('d Month yyyy', '%d %s %04d' % (d, full, y)),
        ('dd Month yyyy', '%02d %s %04d' % (d, full, y)),
        ('d Mon yyyy', '%d %s %04d' % (d, abbr, y)),
        ('Month d yyyy', '%s %d %04d' % (full, d, y)),
        ('Month d, yyyy', '%s %d, %04d' % (full, d, y)),
        ('Mon d, yyyy', '%s %d, %04d' % (abbr, d, y)),
        ('d-Mon-yyyy', '%d-%s-%04d' % (d, abbr, y)),
        # year first
        ('yyyy-Mon-dd', '%04d-%s-%02d' % (y, abbr, d)),
        ('yyyy Month d', '%04d %s %d' % (y, full, d)),
        ('yyyy/mon/dd', '%04d/%s/%02d' % (y, abbr.lower(), d)),
        ('yyyy.Month.dd', '%04d.%s.%02d' % (y, full, d)),
    ]
    for form, s in names:
        same('uk:' + form, 'dt(%r)' % s, t0, dt, s)
        same('us:' + form, "dt(%r, dialect='us')" % s, t0, dt, s, dialect='us')
    # dt2str round trip on the bare day, and ymd
    _roundtrip(D, dt, dt2str, t0)
    same('ymd(datetime)', 'ymd(%r)' % (t0,), t0, ymd, DATETIME(y, m, d))
    same('ymd(date)', 'ymd(%r)' % (date,), t0, ymd, date)
    same('ymd(y,m,d)', 'ymd(%d, %d, %d)' % (y, m, d), t0, ymd, y, m, d)
    # ymd of strings, in either dialect (ymd forwards the dialect)
    s_uk = '%02d-%02d-%04d' % (d, m, y)
    s_us = '%02d/%02d/%04d' % (m, d, y)
    same('ymd(uk string)', 'ymd(%r)' % s_uk, t0, ymd, s_uk)
    same('ymd(us string)', "ymd(%r, dialect='us')" % s_us, t0, ymd, s_us, dialect='us')
    same('ymd(iso string)', 'ymd(%r)' % s_iso, t0, ymd, s_iso)
    same('ymd(int yyyymmdd)', 'ymd(%d)' % n, t0, ymd, n)
    if d > 12:
        D.rejected('ymd: us reads dd-mm-yyyy', "ymd(%r, dialect='us')" % s_uk, ymd, s_uk, dialect='us')
        D.rejected('ymd: uk reads mm/dd/yyyy', 'ymd(%r)' % s_us, ymd, s_us)

    # ---- wrong dialect must be rejected, not swapped -------------------------------------------
    if d > 12:
        for sep in SEPS:
            s = '%02d%s%02d%s%04d' % (m, sep, d, sep, y)
            D.rejected('uk reads mm%sdd%syyyy' % (sep, sep), 'dt(%r)' % s, dt, s)
            s = '%02d%s%02d%s%04d' % (d, sep, m, sep, y)
            D.rejected('us reads dd%smm%syyyy' % (sep, sep), "dt(%r, dialect='us')" % s, dt, s, dialect='us')

    # ---- spellings with a time of day ----------------------------------------------------------
    times = TIMES if is_boundary_day(y, m, d) else [TIMES[ordinal % len(TIMES)]]
    for H, M, S, U in times:
        t = DATETIME(y, m, d, H, M, S, U)
        tsec = DATETIME(y, m, d, H, M, S)
        same('datetime+time', 'dt(%r)' % (t,), t, dt, DATETIME(y, m, d, H, M, S, U))
        same('pd.Timestamp+time', 'dt(pd.Timestamp(%r))' % (t,), t, dt, pd.Timestamp(t))
        same('np.datetime64[us]', "dt(np.datetime64(%r, 'us'))" % (t,), t, dt, np.datetime64(t, 'us'))
        same('np.datetime64[s]', "dt(np.datetime64(%r, 's'))" % (tsec,), tsec, dt, np.datetime64(tsec, 's'))
        if y <= NS_LAST_YEAR:
            same('np.datetime64[ns]', "dt(np.datetime64(%r, 'ns'))" % (t,), t, dt, np.datetime64(t, 'ns'))
        same('y,m,d,H,M,S', 'dt(%d, %d, %d, %d, %d, %d)' % (y, m, d, H, M, S), tsec, dt, y, m, d, H, M, S)
        same('y,m,d,H,M', 'dt(%d, %d, %d, %d, %d)' % (y, m, d, H, M), DATETIME(y, m, d, H, M), dt, y, m, d, H, M)          # fewer parts: the missing ones are 0
        same('y,m,d,H', 'dt(%d, %d, %d, %d)' % (y, m, d, H), DATETIME(y, m, d, H), dt, y, m, d, H)
        hms = '%02d:%02d:%02d' % (H, M, S)
        s_sec = '%sT%s' % (s_iso, hms)
        s_us = '%sT%s.%06d' % (s_iso, hms, U)
        s_sp = '%s %s.%06d' % (s_iso, hms, U)
        same('iso T seconds', 'dt(%r)' % s_sec, tsec, dt, s_sec)
        # a fraction written with fewer than six digits is a decimal fraction of a second ('.5' = 500000 microseconds)
        for nd in (1, 3, 5):
            frac = ('%06d' % U)[:nd]
            t_frac = DATETIME(y, m, d, H, M, S, int(frac.ljust(6, '0')))
            s_fr = '%sT%s.%s' % (s_iso, hms, frac)
            same('iso T %d-digit fraction' % nd, 'dt(%r)' % s_fr, t_frac, dt, s_fr)
            same('us:iso T %d-digit fraction' % nd, "dt(%r, dialect='us')" % s_fr, t_frac, dt, s_fr, dialect='us')
        same('iso T microseconds', 'dt(%r)' % s_us, t, dt, s_us)
        same('iso space microseconds', 'dt(%r)' % s_sp, t, dt, s_sp)
        same('us:iso T microseconds', "dt(%r, dialect='us')" % s_us, t, dt, s_us, dialect='us')
        if t != t0:
            _roundtrip(D, dt, dt2str, t)
        for sep in SEPS:
            s = '%02d%s%02d%s%04d %s' % (d, sep, m, sep, y, hms)
            same('uk:dd%smm%syyyy HH:MM:SS' % (sep, sep), 'dt(%r)' % s, tsec, dt, s)
            s = '%02d%s%02d%s%04d %s' % (m, sep, d, sep, y, hms)
            same('us:mm%sdd%syyyy HH:MM:SS' % (sep, sep), "dt(%r, dialect='us')" % s, tsec, dt, s, dialect='us')
            # the time of day joined to the year by the ISO 'T' instead of a space: the date part is read in the dialect all the same
            s = '%02d%s%02d%s%04dT%s' % (d, sep, m, sep, y, hms)
            same('uk:dd%smm%syyyyTHH:MM:SS' % (sep, sep), 'dt(%r)' % s, tsec, dt, s)
            if d > 12:
                D.rejected('us reads dd%smm%syyyyTHH:MM:SS' % (sep, sep), "dt(%r, dialect='us')" % s, dt, s, dialect='us')
            s = '%02d%s%02d%s%04dT%s' % (m, sep, d, sep, y, hms)
            same('us:mm%sdd%syyyyTHH:MM:SS' % (sep, sep), "dt(%r, dialect='us')" % s, tsec, dt, s, dialect='us')
            if d > 12:
                D.rejected('uk reads mm%sdd%syyyyTHH:MM:SS' % (sep, sep), 'dt(%r)' % s, dt, s)
        s = '%d %s %04d %s' % (d, full, y, hms)
        same('uk:d Month yyyy HH:MM:SS', 'dt(%r)' % s, tsec, dt, s)
        same('us:d Month yyyy HH:MM:SS', "dt(%r, dialect='us')" % s, tsec, dt, s, dialect='us')
        # several spellings handed over together in ONE list: element by element, whatever stands first and last
        mixed = [DATETIME(y, m, d, H, M, S, U), s_us, np.datetime64(t, 'us'), pd.Timestamp(t), DATETIME(y, m, d, H, M, S, U)]
        out = D.out
        out.sub()
        try:
            got = dt(list(mixed))
            got2 = ymd(list(mixed))
            out.call(2)
            if not (isinstance(got, list) and len(got) == len(mixed) and all(isinstance(g, DATETIME) and g == t for g in got)):
                out.viol('wrong-datetime', 'dt([datetime, %r, np.datetime64, pd.Timestamp, datetime]) [list of spellings]: expected five times %r, observed %r' % (s_us, t, got),
                         spelling='list of spellings', day=D.klass)
            elif not (isinstance(got2, list) and len(got2) == len(mixed) and all(isinstance(g, DATETIME) and g == t0 for g in got2)):
                out.viol('wrong-datetime', 'ymd([datetime, %r, np.datetime64, pd.Timestamp, datetime]) [ymd of a list of spellings]: expected five times %r, observed %r' % (s_us, t0, got2),
                         spelling='ymd(list of spellings)', day=D.klass)
        except Exception as e:
            out.viol('raised', 'dt / ymd([datetime, %r, np.datetime64, pd.Timestamp, datetime]) raised %s: %s' % (s_us, type(e).__name__, e), spelling='list of spellings', day=D.klass)
        # a list of plain datetimes is the caller's object: ymd of it returns the dates, the list keeps its times of day
        out.sub()
        own = [DATETIME(y, m, d, H, M, S, U), DATETIME(y, m, d, H, M, S, U)]
        try:
            g3 = ymd(own)
            g4 = dt(own)
            out.call(2)
            if not (isinstance(g3, list) and all(isinstance(g, DATETIME) and g == t0 for g in g3) and len(g3) == 2):
                out.viol('wrong-datetime', 'ymd([t, t]) with t = %r [list of datetimes]: expected [%r, %r], observed %r' % (t, t0, t0, g3), spelling='ymd(list of datetimes)', day=D.klass)
            elif not all(isinstance(g, DATETIME) and g == t for g in own) or not (isinstance(g4, list) and all(g == t for g in g4)):
                out.viol('argument-modified', 'after ymd(L) with L = [t, t], t = %r: L is now %r and dt(L) = %r' % (t, own, g4), spelling='ymd(list of datetimes)', day=D.klass)
        except Exception as e:
            out.viol('raised', 'ymd / dt([t, t]) with t = %r raised %s: %s' % (t, type(e).__name__, e), spelling='ymd(list of datetimes)', day=D.klass)
        # ymd drops the time of day
        same('ymd(datetime+time)', 'ymd(%r)' % (t,), t0, ymd, DATETIME(y, m, d, H, M, S, U))
        same('ymd(pd.Timestamp+time)', 'ymd(pd.Timestamp(%r))' % (t,), t0, ymd, pd.Timestamp(t))
        same('ymd(np.datetime64[us])', "ymd(np.datetime64(%r, 'us'))" % (t,), t0, ymd, np.datetime64(t, 'us'))
        same('ymd(iso T microseconds)', 'ymd(%r)' % s_us, t0, ymd, s_us)
        same('ymd(y,m,d,H,M,S)', 'ymd(%d, %d, %d, %d, %d, %d)' % (y, m, d, H, M, S), t0, ymd, y, m, d, H, M, S)


def _roundtrip(D, dt, dt2str, t):
    out = D.out
    out.sub()
    try:
        s = dt2str(DATETIME(t.year, t.month, t.day, t.hour, t.minute, t.second, t.microsecond))
        out.call()
    except Exception as e:
        out.call()
        out.viol('raised', 'dt2str(%r) raised %s: %s' % (t, type(e).__name__, e), spelling='dt2str', day=D.klass)
        return
    if not isinstance(s, str):
        out.viol('dt2str-not-a-string', 'dt2str(%r) returned %r' % (t, s), spelling='dt2str', day=D.klass)
        return
    D.same('dt(dt2str(t))', 'dt(%r) where %r = dt2str(%r)' % (s, s, t), t, dt, s)


def check_days(case):
    from pyg_base import dt, ymd, dt2str
    out = Out()
    y, m = case['y'], case['m']
    for d in case['days']:
        _check_day(out, dt, ymd, dt2str, y, m, d)
    return out


# ------------------------------------------------------------------------------------------------
# suite `overflow`

def gen_overflow(years):
    def gen():
        for y in years:
            for m in range(M_LO, M_HI + 1):
                yield {'y': y, 'm': m}
    return gen


def check_overflow(case):
    from pyg_base import dt
    out = Out()
    y, m = case['y'], case['m']
    Y, M0 = divmod(12 * y + (m - 1), 12)          # months since year 0, normalised
    M = M0 + 1
    first = DATETIME(Y, M, 1)
    month_ok = 1 <= m <= 12
    n_in = month_len(Y, M)
    if not month_ok:
        out.nontrivial('month-out-of-range')
    for d in range(D_LO, D_HI + 1):
        expected = first + (d - 1) * DAY
        day_ok = 1 <= d <= n_in
        if month_ok and day_ok and expected != DATETIME(y, m, d):      # the model itself, on the calendar range
            raise AssertionError('reference model broken at %s' % ((y, m, d),))
        try:
            got = dt(y, m, d)
        except Exception as e:
            out.viol('overflow-raised', 'dt(%d, %d, %d): expected %r (= first day of %04d-%02d plus %d days), raised %s: %s' % (
                y, m, d, expected, Y, M, d - 1, type(e).__name__, e), month='in' if month_ok else 'out', day='in' if day_ok else 'out')
            continue
        if not isinstance(got, DATETIME) or got.tzinfo is not None or not (got == expected):
            out.viol('overflow-wrong', 'dt(%d, %d, %d): expected %r (= first day of %04d-%02d plus %d days), observed %r' % (
                y, m, d, expected, Y, M, d - 1, got), month='in' if month_ok else 'out', day='in' if day_ok else 'out')
    # the same rule when the parts go on with a time of day: dt(y, m, d, H[, M, S]) is dt(y, m, d) plus that time
    for d in (D_LO, -31, -1, 0, 1, n_in, n_in + 1, 29, 30, 31, 32, 60, D_HI):
        expected = first + (d - 1) * DAY
        for parts, add in (((10,), datetime.timedelta(hours=10)), ((10, 20), datetime.timedelta(hours=10, minutes=20)), ((10, 20, 30), datetime.timedelta(hours=10, minutes=20, seconds=30))):
            out.sub()
            try:
                got = dt(y, m, d, *parts)
                out.call()
            except Exception as e:
                out.viol('overflow-raised', 'dt(%d, %d, %d, %s): expected %r, raised %s: %s' % (y, m, d, ', '.join(map(str, parts)), expected + add, type(e).__name__, e),
                         month='in' if month_ok else 'out', day='in' if 1 <= d <= n_in else 'out', time_parts=len(parts))
                continue
            if not isinstance(got, DATETIME) or got.tzinfo is not None or not (got == expected + add):
                out.viol('overflow-wrong', 'dt(%d, %d, %d, %s): expected %r (= dt(y, m, d) plus the time of day), observed %r' % (y, m, d, ', '.join(map(str, parts)), expected + add, got),
                         month='in' if month_ok else 'out', day='in' if 1 <= d <= n_in else 'out', time_parts=len(parts))
    n = D_HI - D_LO + 1
    out.sub(n)
    out.call(n)
    out.nontrivial('day<1')
    out.nontrivial('day>month-length')
    out.cls('overflow-normal' if month_ok else 'overflow-wrap')     # `normal`: the d in 1..len(month) of this case
    out.cls('overflow-day-wrap')
    if not month_ok:
        out.cls('overflow-month-below' if m < 1 else 'overflow-month-above')
    return out


# ------------------------------------------------------------------------------------------------

def suites(tier, seed):
    if tier == 'thorough':
        years = list(range(Y0, Y1))
        oyears = list(range(Y0, Y1))
        scope = 'every calendar day of %d-01-01..%d-12-31' % (Y0, Y1 - 1)
    else:
        years = quick_full_years(seed)
        oyears = list(OVERFLOW_QUICK_YEARS)
        scope = ('every day of the years %s (the last three rotated by VERIF_SEED) plus the %s of every month of all %d years'
                 % (years, '/'.join(str(d) for d in QUICK_DAYS), Y1 - Y0))
    gen = gen_days(tier, seed)
    ndays = sum(len(c['days']) for c in gen())
    return [
        Suite('spellings', gen, check_days,
              rule='%s; one case = one (year, month) block; per day: datetime, date, (y,m,d), (y,m,d,H,M,S), int yyyymmdd, int ordinal, '
                   'np.datetime64 D/s/us/ns, pd.Timestamp, ISO date / T seconds / T microseconds / space, yyyymmdd, dd<sep>mm<sep>yyyy (uk) and '
                   'mm<sep>dd<sep>yyyy (us) for sep in -/. and space with and without HH:MM:SS, 7 month-name forms in both dialects, '
                   'dt(dt2str(t)), ymd(...) dropping the time; 8 boundary times of day cycled by ordinal, all 8 on Jan 1, Feb 28/29, Mar 1, '
                   'Dec 31; days > 12 in the other dialect x 4 separators must raise ValueError; non-trivial = (day) with day != month, '
                   'or a leap day, or a century year' % scope,
              bounds=dict(first_day='%d-01-01' % Y0, last_day='%d-12-31' % (Y1 - 1), days=ndays, full_years=len(years),
                          times_of_day=len(TIMES), separators=len(SEPS), dialects=2)),
        Suite('overflow', gen_overflow(oyears), check_overflow,
              rule='dt(y, m, d) for y in %s, every integer m in [%d, %d] and d in [%d, %d] against datetime(Y, M, 1) + (d-1) days with '
                   '(Y, M-1) = divmod(12*y + m-1, 12); one case = one (y, m); non-trivial = month outside 1..12, days below 1, days beyond '
                   'the month length' % ('%d..%d' % (oyears[0], oyears[-1]) if len(oyears) > 4 else oyears, M_LO, M_HI, D_LO, D_HI),
              bounds=dict(years=len(oyears), months=[M_LO, M_HI], days=[D_LO, D_HI])),
    ]
