"""
C17 -- bitemporal store: reading as of T sees exactly what had been published by T (DESIGN.md section 4, C17).

Engine E1 (explicit-state BFS over publication histories on the real bi_merge / bi_read):

* observation dates {d1, d2}; a version is a partial float series over them, each date in
  {absent, 1.0, 2.0, NaN}, not all absent (15 versions); a publication is (version, stamp) with
  stamp in {s1 < s2 < s3} (fixed datetimes); a history is a sequence of merges with NON-DECREASING stamps:
      store' = bi_merge(store, Bi(version, stamp))           (first merge: bi_merge(None, Bi(...)))
      store' = bi_merge(store, [Bi(v, s), Bi(v', s')])       (list form, suite `listform`)
* from every reached state: the 16 reads bi_read(store, asof=T, what=w), T in {before s1, s1, between, s2,
  between, s3, after s3, None}, w in {-1, 0}, compared with a spec-level model that never calls pyg_base;
* no-leak differential: the read at T on the full store equals the read at T on the store built from only the
  publications with stamp <= T (one merge per publication);
* idempotence edge from every state (not expanded): re-merging any version of the history that is still
  current at its stamp leaves all 16 reads unchanged;
* a version that only republishes unchanged values leaves all 16 reads unchanged;
* bi_merge leaves the store passed in, the new frame(s) and the plain version series equal to their snapshots;
* reads between merges (bi_read renames the store's index in place) must not change what later reads return.

A state is the history that reaches it; the canonical key is the store's rows sorted by (date, stamp) with NaN
normalised + column names + dtypes + index name, the last stamp used (it decides the enabled ops) and the
model's per-(date, stamp) summary (it decides every future model read).  bi_merge is a pure function of its
arguments, so equal keys have equal futures.  A re-merge edge that lands on a store with the identical
fingerprint is a self-loop: its reads are those just checked and are not repeated.

Suites: `history` (BFS, all 15 versions, depth 2 quick / 3 thorough), `onedate` (BFS one level deeper over the 3
versions of date d1 only: a revert 1,2,1 needs three publications of one date), `listform` (the list form has
its whole fan-out on one predecessor, so it is enumerated as complete histories by E2 and visited by the same
visit(): bi_merge(None, [p, q]) in quick, additionally bi_merge(bi_merge(None, o), [p, q]) in thorough).
"""
import datetime

import numpy as np
import pandas as pd

from mc.engine import BfsSuite, Out
from mc.codec import cell_eq, is_nan

PROPERTY = 'C17'
ASSUMPTIONS = [
    'histories merge versions in non-decreasing stamp order (decreasing stamps excluded; the only decreasing-stamp '
    'merge made is the idempotence edge, re-merging a version that is already current in the store)',
    'single-column float data only (Series; suite frameform: one-column DataFrames); multi-column frames and the _column_names machinery are excluded',
    'a version is handed over as a Bi frame built by Bi(version, stamp), or (suite plainform) as a plain series stamped by bi_merge through asof= / existing_data=',
    "what in {-1, 0} only; what in {'first','last','all', other ints} excluded",
    'asof is a datetime or None; asof given as a bitemporal frame is excluded',
    'per-date groups stay <= 16 rows: the same-stamp clause relies on pandas/numpy quicksort being an insertion '
    'sort (stable) up to 16 elements',
    'what=0 ("the first value published per date"): when several publications share the earliest stamp of a date '
    'the statement does not say whether the first-merged or the finally-effective one is meant; either is accepted. '
    'A NaN publication counts as a published value (the quantifier lists NaN among the values)',
    'idempotence ("a version that is already in the store") is asserted for versions that are still current at '
    'their own stamp, i.e. not superseded by a later-merged different value with the same stamp; re-merging a '
    'superseded version is a new publication (covered as an ordinary merge when its stamp is not decreasing)',
    'only rows (date -> value) of the result are compared; its name, index name, row order and container type '
    '(Series vs one-column frame) are not part of the statement',
    'reading an empty store (bi_merge(None, []) is None) is not checked',
]

D = [pd.Timestamp('2019-06-03'), pd.Timestamp('2019-06-04')]            # observation dates d1, d2
S = [datetime.datetime(2020, 1, 1), datetime.datetime(2020, 2, 1), datetime.datetime(2020, 3, 1)]   # stamps
# read times: (name, numeric position on the stamp axis (stamp i sits at i), datetime or None, class)
READS_T = [
    ('before-s1', -0.5, datetime.datetime(2019, 12, 1), 'before'),
    ('s1', 0, S[0], 'on'),
    ('s1..s2', 0.5, datetime.datetime(2020, 1, 15), 'between'),
    ('s2', 1, S[1], 'on'),
    ('s2..s3', 1.5, datetime.datetime(2020, 2, 15), 'between'),
    ('s3', 2, S[2], 'on'),
    ('after-s3', 2.5, datetime.datetime(2020, 4, 1), 'after'),
    ('None', 99, None, 'latest'),          # must stay last: bi_read(asof=None) renames the store's index in place
]
WHATS = [-1, 0]
CELLS = [None, 1.0, 2.0, 'nan']           # None = the date is absent from the version
VERSIONS = [[a, b] for a in CELLS for b in CELLS if not (a is None and b is None)]
ONE_DATE_VERSIONS = [v for v in VERSIONS if v[1] is None]
UPDATED = 'updated'
NOROW = 'NOROW'


# ------------------------------------------------------------------------------------------------ model

def _val(c):
    if c == 'nan':
        return float('nan')
    if _CUR.get('near') and float(c) == 2.0:
        return 1.0 + 1e-9            # a revision that differs from 1.0 in the tenth digit is a different value
    if _CUR.get('zero') and float(c) == 2.0:
        return 0.0                   # zero is a value like any other (not a stand-in for "nothing published")
    return float(c)


def flatten(history):
    """history -> list of publications (version descriptor, stamp index) in merge order"""
    pubs = []
    for op in history:
        if op[0] == 'merge':
            pubs.append((op[1], op[2]))
        elif op[0] in ('mergelist', 'plain2', 'mixedlist'):
            for vd, si in op[1:]:
                pubs.append((vd, si))
        elif op[0] in ('plain', 'plainlist'):
            pubs.append((op[1], op[2]))
        else:
            raise ValueError('unknown op %r' % (op,))
    return pubs


class Model:
    """per date the list of publications (stamp index, value) in merge order -- nothing else"""

    def __init__(self, pubs=()):
        self.pubs = {0: [], 1: []}
        for vd, si in pubs:
            self.publish(vd, si)

    def publish(self, vd, si):
        for d in (0, 1):
            if vd[d] is not None:
                self.pubs[d].append((si, _val(vd[d])))

    def _visible(self, d, t):
        c = [p for p in self.pubs[d] if p[0] <= t]
        c.sort(key=lambda p: p[0])        # stable: (stamp, merge order)
        return c

    def last(self, d, t):
        """latest value published with stamp <= t; a NaN never overrides an earlier value; NOROW if none"""
        c = self._visible(d, t)
        if not c:
            return NOROW
        for s, v in reversed(c):
            if not is_nan(v):
                return v
        return float('nan')

    def first(self, d, t):
        """acceptable answers for what=0 (list), or NOROW"""
        c = self._visible(d, t)
        if not c:
            return NOROW
        t0 = c[0][0]
        at0 = [v for s, v in c if s == t0]
        eff = float('nan')
        for v in reversed(at0):
            if not is_nan(v):
                eff = v
                break
        acc = [eff]
        if not cell_eq(at0[0], eff):
            acc.append(at0[0])
        return acc

    def expected(self, t, w):
        """{date index: list of acceptable values}; dates without a row are missing from the dict"""
        exp = {}
        for d in (0, 1):
            e = self.last(d, t) if w == -1 else self.first(d, t)
            if isinstance(e, str):
                continue
            exp[d] = e if isinstance(e, list) else [e]
        return exp

    def current(self, vd, si):
        """is the publication (vd, si) still what the store holds at stamp si (not superseded at its own stamp)?"""
        for d in (0, 1):
            if vd[d] is None or vd[d] == 'nan':
                continue
            if not cell_eq(self.last(d, si), _val(vd[d])):
                return False
        return True

    def republishes_unchanged(self, vd):
        """every date of vd was published before and vd carries its latest value (or NaN) again"""
        for d in (0, 1):
            if vd[d] is None:
                continue
            cur = self.last(d, 99)
            if isinstance(cur, str):
                return False
            if vd[d] != 'nan' and not cell_eq(cur, _val(vd[d])):
                return False
        return True

    def summary(self):
        out = []
        for d in (0, 1):
            per = []
            for si in range(len(S)):
                at = [v for s, v in self.pubs[d] if s == si]
                nn = [v for v in at if not is_nan(v)]
                per.append([len(at) > 0, nn[-1] if nn else None, (None if not at else _show(at[0]))])
            out.append(per)
        return out

    def classes(self):
        cl = set()
        for d in (0, 1):
            p = self._visible(d, 99)
            for i, (s, v) in enumerate(p):
                earlier = p[:i]
                if is_nan(v) and any(not is_nan(u) for _, u in earlier):
                    cl.add('nan-override')
                if any(s0 == s for s0, _ in earlier):
                    cl.add('same-stamp')
                nn = [u for _, u in earlier if not is_nan(u)]
                if not is_nan(v) and nn:
                    if nn[-1] == v:
                        cl.add('repeat')
                    elif v in nn:
                        cl.add('revert')
                    else:
                        cl.add('revise')
            if p and is_nan(p[0][1]):
                cl.add('nan-first')
        return cl


# ------------------------------------------------------------------------------------------------ helpers

def _show(v):
    if v is None:
        return None
    if isinstance(v, str):
        return v
    if is_nan(v):
        return 'nan'
    if isinstance(v, (pd.Timestamp, datetime.datetime, np.datetime64)):
        return pd.Timestamp(v).isoformat()
    if isinstance(v, (float, np.floating, int, np.integer)):
        return float(v)
    return repr(v)


DF = [pd.Timestamp('2021-03-31'), pd.Timestamp('2021-06-30')]            # observation dates AFTER every stamp and read time (forecasts, forward-dated rows)
_CUR = {'dates': D, 'reversed': False, 'near': False, 'tz': False, 'zero': False}
_UTC = datetime.timezone.utc
_TZ2 = datetime.timezone(datetime.timedelta(hours=2))


def stamp(si):
    """publication stamp number si: naive, or (flag tz) the same wall clock as an aware UTC datetime"""
    return S[si].replace(tzinfo=_UTC) if _CUR.get('tz') else S[si]


def read_time(T):
    """the read time of a READS_T entry: naive, or (flag tz) the same instant spelt in the +02:00 zone"""
    if T[2] is None or not _CUR.get('tz'):
        return T[2]
    pos = T[1]
    if pos == int(pos):
        inst = S[int(pos)]
    elif pos > len(S) - 1:
        inst = S[-1] + datetime.timedelta(hours=1)
    else:
        inst = S[int(pos + 0.5)] - datetime.timedelta(hours=1)          # one hour BEFORE the next stamp: closer to it than the two zones are apart
    return inst.replace(tzinfo=_UTC).astimezone(_TZ2)


def mk_series(vd):
    idx, vals = [], []
    for d in ((1, 0) if _CUR['reversed'] else (0, 1)):                     # reversed: the version lists its dates newest first
        if vd[d] is not None:
            idx.append(_CUR['dates'][d])
            vals.append(_val(vd[d]))
    return pd.Series(vals, index=pd.DatetimeIndex(idx), dtype=float)


def snap(x):
    """deep snapshot of a Series / DataFrame (or None) as plain data"""
    if x is None:
        return None
    if isinstance(x, pd.Series):
        return ['series', _show(x.index.name), str(x.index.dtype), [_show(i) for i in x.index], str(x.dtype), _show(x.name),
                [_show(v) for v in x.values]]
    if isinstance(x, pd.DataFrame):
        return ['frame', _show(x.index.name), str(x.index.dtype), [_show(i) for i in x.index], [str(c) for c in x.columns],
                [str(t) for t in x.dtypes], [[_show(v) for v in x[c].values] for c in x.columns]]
    return ['other', repr(x)]


def fingerprint(store):
    """canonical form of a store: rows sorted (stably) by (date, stamp), NaN normalised, + names and dtypes"""
    if not isinstance(store, pd.DataFrame):
        return ['not-a-frame', repr(type(store))]
    cols = [str(c) for c in store.columns]
    rows = []
    idx = list(store.index)
    colvals = [list(store[c].values) for c in store.columns]
    ui = cols.index(UPDATED) if UPDATED in cols else None
    for i in range(len(idx)):
        rows.append([_show(idx[i])] + [_show(cv[i]) for cv in colvals])
    if ui is not None:
        rows.sort(key=lambda r: (str(r[0]), str(r[1 + ui])))
    else:
        rows.sort(key=lambda r: str(r[0]))
    return [cols, [str(t) for t in store.dtypes], str(store.index.dtype), _show(store.index.name), rows]


def rows_of(res):
    """result of bi_read -> ({date index or label: value}, problem or None)"""
    if isinstance(res, pd.DataFrame):
        if res.shape[1] != 1:
            return None, 'a frame with columns %s' % list(res.columns)
        res = res.iloc[:, 0]
    if not isinstance(res, pd.Series):
        return None, 'a %s' % type(res).__name__
    out = {}
    for k, v in zip(list(res.index), list(res.values)):
        try:
            k2 = _CUR['dates'].index(pd.Timestamp(k))
        except Exception:
            k2 = repr(k)
        if k2 in out:
            return None, 'duplicate rows for %s' % k
        out[k2] = v
    return out, None


def show_rows(r):
    if r is None:
        return 'None'
    return '{' + ', '.join('%s: %s' % ('d%d' % (k + 1) if isinstance(k, int) else k, _show(v)) for k, v in sorted(r.items(), key=lambda kv: str(kv[0]))) + '}'


def show_exp(e):
    return '{' + ', '.join('d%d: %s' % (k + 1, ' or '.join(str(_show(v)) for v in vs)) for k, vs in sorted(e.items())) + '}'


def same_rows(a, b):
    return a is not None and b is not None and set(a) == set(b) and all(cell_eq(a[k], b[k]) for k in a)


def kind_of(v):
    return 'norow' if isinstance(v, str) else ('nan' if is_nan(v) else 'value')


def show_history(history):
    def sv(vd):
        return '{' + ', '.join('d%d: %s' % (d + 1, vd[d]) for d in (0, 1) if vd[d] is not None) + '}'
    parts = []
    for op in history:
        if op[0] == 'merge':
            parts.append('merge(%s @s%d)' % (sv(op[1]), op[2] + 1))
        elif op[0] == 'plain':
            parts.append('merge(plain %s, asof=s%d)' % (sv(op[1]), op[2] + 1))
        elif op[0] == 'plainlist':
            parts.append('merge(L, asof=s%d) with L = [plain %s] (one list object for every such call)' % (op[2] + 1, sv(op[1])))
        elif op[0] == 'mixedlist':
            parts.append('bi_merge(store, [plain %s, Bi(%s @s%d)], asof=s%d)' % (sv(op[1][0]), sv(op[2][0]), op[2][1] + 1, op[1][1] + 1))
        elif op[0] == 'plain2':
            parts.append('bi_merge(plain %s, plain %s, asof=s%d, existing_data=s%d)' % (sv(op[1][0]), sv(op[2][0]), op[2][1] + 1, op[1][1] + 1))
        else:
            parts.append('merge([%s])' % ', '.join('%s @s%d' % (sv(vd), si + 1) for vd, si in op[1:]))
    return ' ; '.join(parts)


# ------------------------------------------------------------------------------------------------ the suite

class History(BfsSuite):
    crosscheck_depth = 1          # the hash-seed self test re-runs depth 1 only (BFS cannot be strided)

    def __init__(self, name, depth, rule, bounds, versions, container='series'):
        BfsSuite.__init__(self, name, depth, rule, bounds)
        self.versions = versions
        self.container = container          # 'series' | 'frame' (a version handed over as a one-column DataFrame)
        self.dates = 'past'                 # 'past': observation dates before every stamp | 'future': after every stamp and read time
        self.reversed = False               # True: versions list their observation dates newest first
        self.near = False                   # True: the cell value 2 stands for 1.0 + 1e-9
        self.tz = False                     # True: stamps are aware UTC datetimes, read times the same instants spelt in +02:00
        self.zero = False                   # True: the cell value 2 stands for 0.0
        self.extend_after_remerge = False   # True: every re-merge of an OLDER version is followed by one more publication, read against the model

    def initial(self):
        return [[]]

    def ops(self, history):
        """single merges of every version with every stamp >= the last stamp used"""
        pubs = flatten(history)
        last = pubs[-1][1] if pubs else 0
        return [['merge', vd, si] for si in range(last, len(S)) for vd in self.versions]

    # -------------------------------------------------------------------------------------------- visit
    def visit(self, history):
        from pyg_base._bitemporal import Bi, bi_merge, bi_read
        out = Out()
        _CUR['dates'] = DF if self.dates == 'future' else D
        _CUR['reversed'] = bool(self.reversed)
        _CUR['near'] = bool(self.near)
        _CUR['tz'] = bool(self.tz)
        _CUR['zero'] = bool(self.zero)
        pubs = flatten(history)
        n = len(pubs)
        if n == 0:
            out.cls('empty-store')
            return out, 'EMPTY', True
        stamps = [si for _, si in pubs]
        if any(a > b for a, b in zip(stamps, stamps[1:])):
            raise ValueError('history with decreasing stamps: %r' % (history,))
        H = show_history(history) + (' [versions as one-column frames]' if self.container == 'frame' else '') + (
            ' [observation dates d1, d2 = %s, %s: after every stamp]' % (DF[0].date(), DF[1].date()) if self.dates == 'future' else '') + (
            ' [versions list d2 before d1]' if self.reversed else '') + (' [the value 2 is 1.0 + 1e-9]' if self.near else '') + (' [the value 2 is 0.0]' if self.zero else '') + (
            ' [stamps are aware UTC datetimes, read times the same instants written in +02:00]' if self.tz else '')
        model = Model(pubs)
        has_list = any(op[0] != 'merge' for op in history)
        mk = mk_series if self.container == 'series' else (lambda vd: mk_series(vd).to_frame('x'))

        owned = {}          # version descriptor -> the caller's list [plain series], reused by every 'plainlist' op of one replay

        def apply_op(store, op, check, owned=owned):
            if op[0] == 'plainlist':
                key_ = repr(op[1])
                first_use = key_ not in owned
                if first_use:
                    owned[key_] = [mk(op[1])]
                L_ = owned[key_]
                raw0 = L_[0]
                new = bi_merge(store, L_, asof=stamp(op[2]))
                if check:
                    out.call()
                if len(L_) != 1 or L_[0] is not raw0 or UPDATED in getattr(L_[0], 'columns', []):
                    out.viol('input-mutated', '%s: bi_merge changed the list of versions it was handed: it now holds %s' % (H, [snap(x) for x in L_]), which='version list')
                    owned[key_] = [mk(op[1])]
                return new
            items = [(op[1], op[2])] if op[0] in ('merge', 'plain') else [tuple(x) for x in op[1:]]
            sers = [mk(vd) for vd, si in items]                       # fresh version objects of this op
            sers0 = [snap(x) for x in sers]                           # ... as the publisher built them, before Bi / bi_merge see them
            bis = [] if op[0] in ('plain', 'plain2') else [Bi(x, stamp(si)) for x, (vd, si) in zip(sers, items)]
            if op[0] == 'mixedlist':
                bis = bis[1:]                                         # the first member of the list stays a plain series, stamped by bi_merge through asof
            before = [snap(store)] + [snap(b) for b in bis]
            if op[0] == 'merge':
                new = bi_merge(store, bis[0])
            elif op[0] == 'mergelist':
                new = bi_merge(store, list(bis))
            elif op[0] == 'plain':
                new = bi_merge(store, sers[0], asof=stamp(op[2]))
            elif op[0] == 'mixedlist':
                new = bi_merge(store, [sers[0], bis[0]], asof=stamp(op[1][1]))
            elif op[0] == 'plain2':
                if store is not None:
                    raise ValueError('plain2 is a first operation')
                new = bi_merge(sers[0], sers[1], asof=stamp(op[2][1]), existing_data=stamp(op[1][1]))
            else:
                raise ValueError('unknown op %r' % (op,))
            if check:
                out.call()
                after = [snap(store)] + [snap(b) for b in bis] + [snap(x) for x in sers]
                before = before + sers0
                names = ['store'] + ['new frame'] * len(bis) + ['version series'] * len(sers)
                for nm, a, b in zip(names, before, after):
                    if a != b:
                        out.viol('input-mutated', '%s: bi_merge changed its %s: before %s after %s' % (H, nm, a, b), which=nm)
            return new

        # ---- A: the history replayed with no reads in between; seq[k] = store after the first k publications
        try:
            store = None
            inter = [None]
            for i, op in enumerate(history):
                store = apply_op(store, op, check=(i == len(history) - 1))
                inter.append(store)
        except Exception as e:
            out.viol('merge-raised', '%s: bi_merge raised %s: %s' % (H, type(e).__name__, e), exc=type(e).__name__, form=history[-1][0])
            return out, None, False
        if not isinstance(store, pd.DataFrame) or UPDATED not in store.columns:
            out.viol('merge-bad-result', '%s: bi_merge returned %s' % (H, snap(store)), form=history[-1][0])
            return out, None, False
        A = store
        fpA = fingerprint(A)
        if has_list:
            try:
                seq = [None]
                s2 = None
                for vd, si in pubs[:-1]:
                    s2 = bi_merge(s2, Bi(mk(vd), stamp(si)))
                    seq.append(s2)
            except Exception as e:
                out.viol('merge-raised', '%s: merging its publications one by one raised %s: %s' % (H, type(e).__name__, e),
                         exc=type(e).__name__, form='sequential')
                return out, None, False
        else:
            seq = inter[:-1]
        # seq[k] for 0 <= k < n is the store built from the first k publications only

        # ---- idempotence edges: computed BEFORE any read touches A
        remerged = []
        remerged_all = []
        seen = []
        for vd, si in pubs:
            if [vd, si] in seen:
                continue
            seen.append([vd, si])
            if not model.current(vd, si):
                out.cls('remerge-superseded-skipped')
                continue
            b = Bi(mk(vd), stamp(si))
            sa, sb = snap(A), snap(b)
            try:
                R = bi_merge(A, b)
                out.call()
            except Exception as e:
                out.viol('merge-raised', '%s ; RE-MERGE %s@s%d: bi_merge raised %s: %s' % (H, vd, si + 1, type(e).__name__, e),
                         exc=type(e).__name__, form='remerge')
                continue
            if snap(A) != sa or snap(b) != sb:
                out.viol('input-mutated', '%s ; RE-MERGE %s@s%d: bi_merge changed its %s' % (H, vd, si + 1, 'store' if snap(A) != sa else 'new frame'),
                         which='remerge')
            remerged_all.append((vd, si, R))
            if fingerprint(R) == fpA:
                # the edge leads back to the very same store (frame content identical): its reads are the reads of A
                out.cls('remerge-selfloop')
                continue
            out.cls('remerge-new-store')
            remerged.append((vd, si, R))

        # ---- reads
        def read(st, T, w, label, sigvia):
            """one bi_read, normalised to rows; None when it could not be normalised (violation recorded)"""
            try:
                res = bi_read(st, asof=read_time(T), what=w)
                out.call()
            except Exception as e:
                out.viol('read-raised', '%s: bi_read(%s, asof=%s, what=%d) raised %s: %s' % (H, label, T[0], w, type(e).__name__, e),
                         what=w, at=T[3], via=sigvia, exc=type(e).__name__)
                return None
            r, problem = rows_of(res)
            if problem:
                out.viol('read-bad-result', '%s: bi_read(%s, asof=%s, what=%d) returned %s' % (H, label, T[0], w, problem),
                         what=w, at=T[3], via=sigvia)
                return None
            return r

        def read_all(st, label, sigvia, model=model, pubs=pubs):
            """the 16 reads of one store, each compared with the model"""
            got = {}
            for T in READS_T:
                for w in WHATS:
                    r = read(st, T, w, label, sigvia)
                    got[(T[0], w)] = r
                    if r is None:
                        continue
                    exp = model.expected(T[1], w)
                    bad = None
                    for d in (0, 1):
                        if d in exp and d not in r:
                            bad = (d, 'value' if not is_nan(exp[d][0]) else 'nan', 'norow')
                        elif d not in exp and d in r:
                            bad = (d, 'norow', kind_of(r[d]))
                        elif d in exp and not any(cell_eq(r[d], e) for e in exp[d]):
                            bad = (d, kind_of(exp[d][0]), kind_of(r[d]))
                        if bad:
                            break
                    extra = [k for k in r if k not in (0, 1)]
                    if extra and not bad:
                        bad = (extra[0], 'norow', 'unknown-date')
                    if bad:
                        later = any(si > T[1] for _, si in pubs)
                        out.viol('read-wrong', '%s: bi_read(%s, asof=%s, what=%d) expected %s observed %s' % (
                            H, label, T[0], w, show_exp(exp), show_rows(r)), what=w, at=T[3], exp=bad[1], got=bad[2], via=sigvia,
                            later_publications=later)
            return got

        readsA = read_all(A, 'store', 'replay')

        # ---- the read time is an instant however it is spelt: numpy.datetime64 (as found in store['updated'].values) and pandas.Timestamp read like the datetime
        if self.extend_after_remerge and not self.tz:
            for T in READS_T:
                if T[2] is None:
                    continue
                for w in WHATS:
                    base_ = readsA[(T[0], w)]
                    if base_ is None:
                        continue
                    for sname, sp in (('numpy.datetime64[us]', np.datetime64(T[2], 'us')), ('numpy.datetime64[ns]', np.datetime64(T[2], 'ns')), ('pandas.Timestamp', pd.Timestamp(T[2]))):
                        try:
                            res = bi_read(A, asof=sp, what=w)
                            out.call()
                            r, problem = rows_of(res)
                        except Exception as e:
                            out.viol('read-raised', '%s: bi_read(store, asof=%s as %s, what=%d) raised %s: %s' % (H, T[0], sname, w, type(e).__name__, e),
                                     what=w, at=T[3], via='spelling', exc=type(e).__name__)
                            continue
                        if problem or not same_rows(base_, r):
                            out.viol('read-wrong', '%s: bi_read(store, asof=%s, what=%d) gives %s when T is a %s but %s when it is a datetime' % (
                                H, T[0], w, problem or show_rows(r), sname, show_rows(base_)), what=w, at=T[3], via='spelling', spelling=sname.split('[')[0])

        # ---- no leak, asserted directly: read(T) on the full store == read(T) on the store of the publications <= T
        for T in READS_T:
            k = sum(1 for _, si in pubs if si <= T[1])
            if k == 0 or k == n:
                continue          # k == 0: nothing published yet (the model demands no rows); k == n: same store
            for w in WHATS:
                full = readsA[(T[0], w)]
                if full is None:
                    continue
                pre = read(seq[k], T, w, 'store of the first %d publications' % k, 'prefix')
                if pre is None:
                    continue
                if not same_rows(full, pre):
                    out.viol('leak', '%s: bi_read(asof=%s, what=%d) on the full store gives %s but on the store holding only the %d publications '
                             'stamped <= T it gives %s' % (H, T[0], w, show_rows(full), k, show_rows(pre)), what=w, at=T[3])

        # ---- a version that republishes unchanged values alters no read
        last_op = history[-1]
        if last_op[0] == 'merge' and n >= 2 and Model(pubs[:-1]).republishes_unchanged(last_op[1]):
            out.cls('republish-unchanged')
            for T in READS_T:
                for w in WHATS:
                    now = readsA[(T[0], w)]
                    if now is None:
                        continue
                    was = read(seq[n - 1], T, w, 'store before the last merge', 'previous')
                    if was is not None and not same_rows(now, was):
                        out.viol('repeat-altered-read', '%s: the last version republishes unchanged values, yet bi_read(asof=%s, what=%d) '
                                 'changed from %s to %s' % (H, T[0], w, show_rows(was), show_rows(now)), what=w, at=T[3])

        # ---- idempotence: reads after re-merging equal the reads before
        for vd, si, R in remerged:
            for T in READS_T:
                for w in WHATS:
                    now = readsA[(T[0], w)]
                    if now is None:
                        continue
                    r = read(R, T, w, 'store after RE-MERGE %s@s%d' % (vd, si + 1), 'remerge')
                    if r is not None and not same_rows(now, r):
                        out.viol('remerge-changed-read', '%s ; RE-MERGE %s@s%d: bi_read(asof=%s, what=%d) was %s and became %s' % (
                            H, vd, si + 1, T[0], w, show_rows(now), show_rows(r)), what=w, at=T[3], decreasing=si < stamps[-1])

        # ---- the store a re-merge returns is a store like any other: the NEXT publication merged into it reads as if the re-merge had never happened
        if self.extend_after_remerge:
            ext_versions = self.versions if len(self.versions) <= 3 else ONE_DATE_VERSIONS
            for vd, si, R in remerged_all:
                if si == stamps[-1]:
                    continue          # re-merging the newest version: the ordinary same-stamp histories cover what follows
                for esi in range(stamps[-1], len(S)):
                    for evd in ext_versions:
                        try:
                            R2 = bi_merge(R, Bi(mk(evd), stamp(esi)))
                            out.call()
                        except Exception as e:
                            out.viol('merge-raised', '%s ; RE-MERGE %s@s%d ; merge(%s @s%d): bi_merge raised %s: %s' % (H, vd, si + 1, evd, esi + 1, type(e).__name__, e),
                                     exc=type(e).__name__, form='after-remerge')
                            continue
                        pubs2 = pubs + [(evd, esi)]
                        read_all(R2, 'store after RE-MERGE %s@s%d ; merge(%s @s%d)' % (vd, si + 1, evd, esi + 1), 'after-remerge', Model(pubs2), pubs2)
                        out.cls('publication-after-remerge')

        # ---- B: the same history with a read of the latest state after every merge (bi_read renames the index of
        # the store in place); when the resulting store differs in any way from A all reads are checked on it too
        if len(history) >= 2:
            try:
                sb = None
                owned_b = {}
                for i, op in enumerate(history):
                    sb = apply_op(sb, op, False, owned_b)
                    if i < len(history) - 1:
                        bi_read(sb, asof=None, what=-1)
                out.call(len(history))
                if fingerprint(sb) != fpA:
                    out.cls('reads-between-merges-change-store')
                    read_all(sb, 'store built with a read after every merge', 'interleaved')
            except Exception as e:
                out.viol('merge-raised', '%s: with bi_read(store) after every merge, %s: %s' % (H, type(e).__name__, e),
                         exc=type(e).__name__, form='interleaved')

        # ---- classes / non-triviality
        cl = model.classes()
        latest = {w: model.expected(99, w) for w in WHATS}
        differs = False
        for T in READS_T[:-1]:
            if T[1] < stamps[0]:
                continue          # nothing published yet: trivially different from the latest read
            for w in WHATS:
                e = model.expected(T[1], w)
                if set(e) != set(latest[w]) or any(not cell_eq(e[d][0], latest[w][d][0]) for d in e):
                    differs = True
        if differs:
            cl.add('leak-candidate')
        if has_list:
            cl.add('list-form')
        interesting = cl & {'leak-candidate', 'nan-override', 'same-stamp', 'revert', 'nan-first'}
        if interesting:
            out.nontrivial()
        for c in (sorted(cl) or ['plain']):
            out.cls(c)

        key = repr((fpA, stamps[-1], model.summary()))
        return out, key, True


_VISITOR = History('visitor', 0, '', {}, VERSIONS)


def check_history(case):
    """E2 form: one complete history (used for the list form, whose fan-out sits on a single predecessor)"""
    _VISITOR.container = case.get('container', 'series')
    _VISITOR.dates = case.get('dates', 'past')
    _VISITOR.reversed = case.get('reversed', False)
    _VISITOR.near = case.get('near', False)
    _VISITOR.tz = case.get('tz', False)
    _VISITOR.zero = case.get('zero', False)
    out, key, exp = _VISITOR.visit(case['history'])
    return out


QUICK_STAMP_PAIRS = [(0, 0), (0, 1), (1, 2)]


def gen_plainform(tier):
    """the versions handed to bi_merge as PLAIN series, stamped through its asof / existing_data arguments:
    bi_merge(plain v0, plain v1, asof=s_j, existing_data=s_i) for i <= j, optionally followed by bi_merge(store, plain v2, asof=s_k), k >= j;
    and bi_merge(None, plain v0, asof=s_i) followed by bi_merge(store, plain v1, asof=s_j)"""
    third = VERSIONS if tier != 'quick' else []
    for si in range(len(S)):
        for sj in range(si, len(S)):
            if tier == 'quick' and (si, sj) not in QUICK_STAMP_PAIRS:
                continue
            for v0 in VERSIONS:
                for v1 in VERSIONS:
                    yield {'history': [['plain2', [v0, si], [v1, sj]]]}
                    yield {'history': [['plain', v0, si], ['plain', v1, sj]]}
                    if v0 in third:
                        for sk in range(sj, len(S)):
                            for v2 in third:
                                yield {'history': [['plain2', [v0, si], [v1, sj]], ['plain', v2, sk]]}
                                yield {'history': [['merge', v0, si], ['plain', v1, sj], ['merge', v2, sk]]}


def gen_axes(tier):
    """the same two-merge histories with (1) observation dates lying AFTER every stamp and read time, (2) versions that list their dates newest first"""
    for si in range(len(S)):
        for sj in range(si, len(S)):
            if tier == 'quick' and (si, sj) not in QUICK_STAMP_PAIRS:
                continue
            for v0 in VERSIONS:
                for v1 in VERSIONS:
                    yield {'history': [['merge', v0, si], ['merge', v1, sj]], 'dates': 'future'}
                    if 2.0 in v0 + v1 and 1.0 in v0 + v1:
                        yield {'history': [['merge', v0, si], ['merge', v1, sj]], 'near': True}
                    if (si, sj) != (0, 0):
                        yield {'history': [['merge', v0, si], ['merge', v1, sj]], 'tz': True}
                    if 2.0 in v0 + v1:
                        yield {'history': [['merge', v0, si], ['merge', v1, sj]], 'zero': True}
                    if (si, sj) == (0, 1):
                        # a list of plain versions is the caller's object: published, revised by someone else, then published AGAIN through the same list with a later asof
                        yield {'history': [['plainlist', v0, 0], ['merge', v1, 1], ['plainlist', v0, 2]]}
                    if si == sj or tier != 'quick':
                        # one list mixing a plain series (stamped through asof) and a Bi frame: the order of the list is the order of publication
                        yield {'history': [['merge', [1.0, 1.0], 0], ['mixedlist', [v0, sj], [v1, sj]]]}
                        if tier != 'quick':
                            yield {'history': [['mixedlist', [v0, si], [v1, sj]]]}
                    if (v0[0] is not None and v0[1] is not None) or (v1[0] is not None and v1[1] is not None):
                        yield {'history': [['merge', v0, si], ['merge', v1, sj]], 'reversed': True}
                        if tier != 'quick':
                            yield {'history': [['mergelist', [v0, si], [v1, sj]]], 'reversed': True}


def gen_frameform(tier):
    """histories whose versions are one-column DataFrames (same column name throughout)"""
    vs = VERSIONS if tier != 'quick' else [v for v in VERSIONS if v[0] is not None]
    for si in range(len(S)):
        for sj in range(si, len(S)):
            if tier == 'quick' and (si, sj) not in QUICK_STAMP_PAIRS:
                continue
            for v0 in vs:
                for v1 in vs:
                    yield {'history': [['merge', v0, si], ['merge', v1, sj]], 'container': 'frame'}
                    yield {'history': [['mergelist', [v0, si], [v1, sj]]], 'container': 'frame'}
                    yield {'history': [['plain2', [v0, si], [v1, sj]]], 'container': 'frame'}


def gen_listform(first_versions):
    """bi_merge(None, [p, q]) and bi_merge(bi_merge(None, o), [p, q]) for all publications o <= p <= q (by stamp)"""
    def pairs(last):
        for si in range(last, len(S)):
            for sj in range(si, len(S)):
                for v1 in VERSIONS:
                    for v2 in VERSIONS:
                        yield ['mergelist', [v1, si], [v2, sj]]
    for op in pairs(0):
        yield {'history': [op]}
    quick = len(first_versions) == 1
    for s0 in range(len(S)):
        for v0 in first_versions:
            for op in pairs(s0):
                if quick and (s0 > 0 or (op[1][1], op[2][1]) not in [(0, 0), (0, 1), (1, 2)]):
                    continue          # quick tier: one version already in the store at s1, the list stamped (s1,s1), (s1,s2) or (s2,s3)
                yield {'history': [['merge', v0, s0], op]}


# ------------------------------------------------------------------------------------------------ wide stores
# The BFS suites use two observation dates, so a store never exceeds a dozen rows. Sorting by stamp is only order preserving for
# publications that SHARE a stamp if it is stable, and pandas' default sort is an insertion sort (stable) only up to 16 elements:
# "of several sharing a stamp the one merged last" can therefore only be decided on stores with more than 16 rows.

WIDE_N = 9
WIDE_DATES = [pd.Timestamp('2019-06-03') + pd.Timedelta(days=i) for i in range(WIDE_N)]
# the two stamps (and the read time between them) lie inside ONE millisecond: stamps are compared to the microsecond
WS = [datetime.datetime(2020, 1, 1, 12, 0, 0, 10), datetime.datetime(2020, 1, 1, 12, 0, 0, 50)]
WREADS = [('before', -0.5, datetime.datetime(2020, 1, 1, 12, 0, 0, 5)), ('s1', 0, WS[0]), ('s1..s2', 0.5, datetime.datetime(2020, 1, 1, 12, 0, 0, 30)),
          ('s2', 1, WS[1]), ('None', 99, None)]
WIDE_VALS = ['1', '2', 'nan', 'alt', 'half']          # the same value on every date / NaN / alternating 1,2 / only the even dates


def _wide_series(code, k):
    if code == 'half':
        idx = [d for i, d in enumerate(WIDE_DATES) if i % 2 == 0]
        return pd.Series([10.0 + k] * len(idx), index=pd.DatetimeIndex(idx), dtype=float)
    vals = {'1': [1.0] * WIDE_N, '2': [2.0] * WIDE_N, 'nan': [float('nan')] * WIDE_N, 'alt': [1.0 + (i % 2) for i in range(WIDE_N)]}[code]
    return pd.Series(vals, index=pd.DatetimeIndex(WIDE_DATES), dtype=float)


def gen_wide(maxlen):
    import itertools
    for n in range(2, maxlen + 1):
        for codes in itertools.product(WIDE_VALS, repeat=n):
            for stamps in itertools.combinations_with_replacement(range(2), n):
                yield {'pubs': [[c, s_] for c, s_ in zip(codes, stamps)]}


def check_wide(case):
    from pyg_base import Bi, bi_merge, bi_read
    out = Out()
    pubs = case['pubs']
    label = 'merge ' + ' ; '.join('%s@s%d' % (c, s_ + 1) for c, s_ in pubs) + ' over %d dates' % WIDE_N
    store = None
    model = {i: [] for i in range(WIDE_N)}        # date -> [(stamp, value)] in merge order
    try:
        for k, (code, si) in enumerate(pubs):
            ser = _wide_series(code, k)
            store = bi_merge(store, Bi(ser, WS[si]))
            out.call()
            for d, v in zip(ser.index, ser.values):
                model[WIDE_DATES.index(d)].append((si, float(v)))
    except Exception as e:
        out.viol('wide-merge-raised', '%s raised %s: %s' % (label, type(e).__name__, e))
        return out
    same_stamp = len(set(s_ for _, s_ in pubs)) < len(pubs)
    for tname, tpos, T in WREADS:
        out.sub()
        try:
            res = bi_read(store.copy(), asof=T, what=-1)
            out.call()
            if isinstance(res, pd.DataFrame):
                res = res.iloc[:, 0]
            got = {WIDE_DATES.index(pd.Timestamp(k)): float(v) for k, v in zip(res.index, res.values)}
        except Exception as e:
            out.viol('wide-read-raised', '%s then bi_read(asof=%s) raised %s: %s' % (label, tname, type(e).__name__, e))
            continue
        exp = {}
        for i in range(WIDE_N):
            vis = sorted([p for p in model[i] if p[0] <= tpos], key=lambda p: p[0])        # stable: (stamp, merge order)
            if not vis:
                continue
            nn = [v for _, v in vis if v == v]
            exp[i] = nn[-1] if nn else float('nan')
        bad = [i for i in set(exp) | set(got) if i not in exp or i not in got or not cell_eq(exp[i], got[i])]
        if bad:
            i = min(bad)
            out.viol('wide-read-wrong', '%s (store of %d rows) then bi_read(asof=%s): date #%d reads %r, expected %r (latest value published with stamp <= T, of several '
                     'sharing a stamp the one merged last)' % (label, len(store), tname, i, got.get(i, 'no row'), exp.get(i, 'no row')),
                     same_stamp=same_stamp, rows_over_16=len(store) > 16)
    if same_stamp:
        out.nontrivial()
    out.cls('wide-%s-%s' % ('same-stamp' if same_stamp else 'distinct', 'big' if len(store) > 16 else 'small'))
    return out


def suites(tier, seed):
    from mc.engine import Suite
    nv = len(VERSIONS)
    common = dict(dates=2, cell_values=['absent', 1.0, 2.0, 'NaN'], versions=nv, stamps=3, read_times=len(READS_T), what=[-1, 0])
    rule = ('every history of <= %d merges (non-decreasing stamps) of the %d versions (partial series over {d1, d2}, cells absent/1/2/NaN) x 3 stamps; from every state 16 reads vs the '
            'model, the prefix-store (no-leak) differential, unchanged-republish and input-snapshot checks, one re-merge (idempotence) edge per '
            'current version of the history, and a replay with a read after every merge; non-trivial = histories where some read at a T on or '
            'after the first stamp differs from the latest read, or containing a NaN-after-value, NaN-first, reverting or same-stamp publication')
    lrule = ('the list form: bi_merge(None, [p, q]) for every ordered pair of publications with non-decreasing stamps%s; same checks as the '
             'history suite, the no-leak differential being taken against the store built by merging the publications one by one')
    if tier == 'quick':
        first = [[1.0, 2.0]]         # one full version already in the store before the list is merged (every version in the thorough tier)
        depth = 2
    else:
        first = VERSIONS
        depth = 3
    n1 = len(ONE_DATE_VERSIONS)
    def _ext(h, on):
        h.extend_after_remerge = on
        return h
    xrule = '; after every re-merge of an older version still current at its stamp, one more publication (%s) read against the model'
    return [
        _ext(History('history', depth, rule % (depth, nv) + (xrule % 'the 3 versions of date d1 x every stamp >= the last' if tier != 'quick' else ''), dict(common), VERSIONS), tier != 'quick'),
        # one level deeper over a single date: a revert (1, 2, 1) / NaN-in-the-middle needs three publications of one date
        _ext(History('onedate', depth + 1, rule % (depth + 1, n1) + '; versions restricted to date d1' + xrule % 'every version x every stamp >= the last',
                     dict(common, dates=1, versions=n1), ONE_DATE_VERSIONS), True),
        Suite('wide', lambda: gen_wide(3 if tier == 'quick' else 4), check_wide,
              rule='stores of more than 16 rows: every sequence of 2..%d publications over %d observation dates (the same value on every date, NaN, alternating, '
                   'every other date) x non-decreasing stamps from {s1, s2}; reads at s1, s2 and latest against the publication-list model; non-trivial = two '
                   'publications share a stamp' % (3 if tier == 'quick' else 4, WIDE_N), bounds=dict(dates=WIDE_N, max_publications=3 if tier == 'quick' else 4)),
        Suite('plainform', lambda: gen_plainform(tier), check_history,
              rule='versions handed over as PLAIN series and stamped by bi_merge itself: bi_merge(plain v0, plain v1, asof=s_j, existing_data=s_i) and '
                   'bi_merge(bi_merge(None, plain v0, asof=s_i), plain v1, asof=s_j) for every pair of versions and %s; same checks as the history suite'
                   % ('(i, j) in %s' % QUICK_STAMP_PAIRS if tier == 'quick' else 'every i <= j, each followed by every third publication (as plain series or as Bi frame)'),
              bounds=dict(common, max_publications=3)),
        Suite('axes', lambda: gen_axes(tier), check_history,
              rule='two-merge histories over all pairs of versions (%s) with (1) the observation dates lying AFTER every stamp and every read time (forward-dated rows: what '
                   'is published by T is read at T whatever date it is about), (2) versions that list their observation dates newest first, (3) revisions that differ from the stored value in the tenth digit (1.0 + 1e-9), (4) tz-aware UTC stamps read at the same instants written in the +02:00 zone, (5) the value 0.0, (6) one list mixing a plain series and a Bi frame; same checks as the history suite'
                   % ('stamp pairs %s' % QUICK_STAMP_PAIRS if tier == 'quick' else 'all stamp pairs; reversed versions also through the list form'),
              bounds=dict(common, max_publications=2)),
        Suite('frameform', lambda: gen_frameform(tier), check_history,
              rule='the versions as one-column DataFrames instead of Series (%s): two merges, the list form and the plain form; same checks as the history suite, '
                   'in particular the publisher\'s frames are compared with snapshots taken BEFORE Bi() / bi_merge saw them' % ('versions holding d1, stamp pairs %s' % QUICK_STAMP_PAIRS if tier == 'quick' else 'all 15 versions, all stamp pairs'),
              bounds=dict(common, max_publications=2)),
        Suite('listform', lambda: gen_listform(first), check_history,
              rule=lrule % (' and bi_merge(bi_merge(None, o), [p, q]) for every triple o, p, q' if first else ''),
              bounds=dict(common, list_length=2, merges_before_the_list=1 if first else 0)),
    ]
