"""
C15 -- tree flatten / rebuild are inverse; tree_update is a non-destructive deep merge; table <-> tree (DESIGN.md section 4, C15).

A tree travels through a case descriptor as its ordered item list [[k1, .., kn, leaf], ...] (JSON objects lose their key order in
the engine's canonical dump, an item list does not).  Real trees are built from it by plain dict insertion, never with pyg_base.

E2 suites:
  roundtrip      every tree of the family in EVERY per-branch key order x 5 root / branch type layouts: items_to_tree(tree_items(t)) == t,
                 tree_keys / tree_values = unzip of tree_items, tree_getitem / tree_get in tuple, list and dotted spellings,
                 tree_update(t, t) == t, tree_update(t, {}) == t, Dict(t) + {} == t, t untouched
  update_pairs   ALL pairs (t, u) of the t-family x the u-family x ignore lists x {tree_update, Dict + dict, items_to_tree(items, tree=t),
                 tree_setitem on a copy} against a recursive merge model; deep identity+content snapshots of t and u after every call
  update_chains  all chains r1 = tree_update(t, u); r2 = tree_update(r1, v) | tree_update(v, r1); (thorough) r3 = tree_update(r2, w) over the
                 <= 2-leaf shapes, every earlier operand and result kept alive and re-inspected after every later call (E2 over sequences:
                 one case = one (t, u), the loop over v and w is inside, so r1 / r2 really are shared by all their continuations)
  table_tree     patterns with 1..4 wildcards x all tables of <= 3 rows with unique paths x base trees (none, empty, overlapping, conflicting):
                 table_to_tree == merge model, base untouched, tree_to_table / dictable(tree, pattern) give the rows back, and back again
"""
import itertools

from mc.engine import Suite, Out
from mc.codec import row_eq, show

PROPERTY = 'C15'
ASSUMPTIONS = [
    'trees have string keys and, for the round trip, NO empty branches (flattening loses an empty branch by construction); suite edge_trees adds keys that '
    'contain a dot (paths then spelt as tuples / lists only: the dotted-string spelling is ambiguous there) and, for the merge only, t-trees with empty '
    'branches (an EMPTY branch of u has no leaves to contribute; what it does to t is not stated and not exercised); leaves are None, ints, '
    'strings and lists -- dictable / dict-subclass LEAVES are excluded (a dict instance is always a branch here)',
    'trees are compared as plain nested dicts (recursive == on the dict content); the TYPES of result branches (dict vs dictattr vs Dict), '
    'the key ORDER of a result and whether a result shares untouched branches or leaves with its operands are not stated and not checked',
    'tree_items is compared with the flattening of the model as a multiset (its order is only compared with tree_keys / tree_values)',
    '`ignore` follows _tree_setitem: an ignored leaf of u keeps whatever t has at that path (leaf or branch) and is written where t has nothing '
    '(also inside a branch of u that has just replaced a leaf of t)',
    'tree_setitem is the in-place API by contract: it is run on a structural copy of t and that copy must then equal the merge model',
    'tree_get (not in the statement; semantics from its docstring = dict.get along a path): the leaf for a listed path, the default for a missing one',
    'the root of u may be dict, Dict, dictattr or another dict subclass; the root of t is dict, Dict or dictattr (new branches take type(t))',
    'table <-> tree: key cells are strings, leaf cells None / int / str, rows have pairwise different paths; with a base tree that holds a branch '
    'below the depth of the pattern only "every table row is returned" is checked (what else such a tree yields is not stated)',
]

MISSING = 'zz'          # a key that no tree contains


# ------------------------------------------------------------------------------------------------ enumeration of trees

def gen_branch(keys, depth, n, ordered):
    """all non-empty branches with <= n leaves and paths of length <= depth, as lists of paths (tuples) in insertion order"""
    for r in range(1, min(len(keys), n) + 1):
        for S in (itertools.permutations(keys, r) if ordered else itertools.combinations(keys, r)):
            yield from _assign(keys, S, 0, n, depth, ordered)


def _assign(keys, S, i, remaining, depth, ordered):
    if i == len(S):
        yield []
        return
    k = S[i]
    rest_min = len(S) - i - 1
    if remaining - 1 >= rest_min:
        for tail in _assign(keys, S, i + 1, remaining - 1, depth, ordered):
            yield [(k,)] + tail
    if depth > 1:
        for sub in gen_branch(keys, depth - 1, remaining - rest_min, ordered):
            head = [(k,) + p for p in sub]
            for tail in _assign(keys, S, i + 1, remaining - len(sub), depth, ordered):
                yield head + tail


_SHAPES = {}


def shapes(keys, depth, n, ordered=False):
    key = (keys, depth, n, ordered)
    if key not in _SHAPES:
        _SHAPES[key] = sorted(gen_branch(keys, depth, n, ordered), key=lambda s: (len(s), sum(map(len, s))))   # simplest first (stable)
    return _SHAPES[key]


def trees(keys, depth, n, leaves, ordered=False, need=None):
    """item lists [[k1..kn, leaf], ...]; `need(paths, values)` filters"""
    for s in shapes(keys, depth, n, ordered):
        for vs in itertools.product(leaves, repeat=len(s)):
            if need is None or need(s, vs):
                yield [list(p) + [v] for p, v in zip(s, vs)]


_FAM = {}


def family(name):
    """the named tree families (lists of item lists), built once per process, deterministic"""
    if name not in _FAM:
        if name == 'T3':        # 1 640
            f = list(trees('ab', 3, 3, [1, None]))
        elif name == 'T2':      # 312
            f = list(trees('ab', 3, 2, [1, None]))
        elif name == 'T4only':  # the 4-leaf trees: 3 312
            f = [t for t in trees('ab', 3, 4, [1, None]) if len(t) == 4]
        elif name == 'U3':      # 1 640
            f = list(trees('ab', 3, 3, [2, 'x']))
        elif name == 'U2':      # 312
            f = list(trees('ab', 3, 2, [2, 'x']))
        elif name == 'UX':      # u-trees with at least one leaf that an ignore list can name: 596
            f = list(trees('ab', 3, 2, [None, 1, 2], need=lambda s, vs: any(v in (None, 1) for v in vs)))
        elif name == 'TC2':     # third key / list leaf, depth <= 2: 549
            f = list(trees('abc', 2, 2, [1, None, [1, 2]]))
        elif name == 'TC3':     # third key / list leaf, depth <= 3: 6 219
            f = list(trees('abc', 3, 2, [1, None, [1, 2]]))
        elif name == 'UC2':     # 252
            f = list(trees('abc', 2, 2, [2, 'x']))
        else:
            raise ValueError(name)
        _FAM[name] = f
    return _FAM[name]


# ------------------------------------------------------------------------------------------------ building, model, snapshots

def _types():
    from pyg_base import Dict, dictattr
    return {'dict': (dict, dict), 'Dict': (Dict, dict), 'dictattr': (dictattr, dict), 'Dict*': (Dict, Dict), 'dictattr*': (dictattr, dictattr),
            'sub': (_Sub, dict)}


class _Sub(dict):
    """a dict subclass that is none of the library's branch types (only ever used as the ROOT of an update)"""


def build(items, root=dict, inner=dict):
    """a fresh tree from an item list by plain dict insertion; list leaves are fresh lists"""
    tree = root()
    setitem, getitem = dict.__setitem__, dict.__getitem__
    for it in items:
        node = tree
        for k in it[:-2]:
            if k not in node:
                setitem(node, k, inner())
            node = getitem(node, k)
        leaf = it[-1]
        setitem(node, it[-2], list(leaf) if type(leaf) is list else leaf)
    return tree


def share(tree):
    """make equal branches under different paths ONE object (d = {...}; t = {'a': d, 'b': d}); returns how many were merged"""
    import json as _json
    seen = {}
    merged = [0]

    def walk(node):
        for k in list(dict.keys(node)):
            v = dict.__getitem__(node, k)
            if isinstance(v, dict):
                walk(v)
                key = _json.dumps(plain(v), sort_keys=True, default=repr)
                if key in seen and seen[key] is not v:
                    dict.__setitem__(node, k, seen[key])
                    merged[0] += 1
                else:
                    seen[key] = v
    walk(tree)
    return merged[0]


def plain(x):
    """any dict instance -> plain dict, recursively (leaves as they are)"""
    if isinstance(x, dict):
        return {k: plain(v) for k, v in dict.items(x)}
    return x


def flatten(m):
    """model flattening of a plain tree: [(path tuple, leaf)] in insertion order"""
    res = []
    for k, v in m.items():
        if isinstance(v, dict):
            res.extend(((k,) + p, leaf) for p, leaf in flatten(v))
        else:
            res.append(((k,), v))
    return res


def _ignored(v, ignore):
    for i in ignore:
        if (v is None and i is None) or (v is not None and i is not None and type(v) is type(i) and v == i):
            return True
    return False


def merge(t, u, ignore, flags):
    """the reference: u's leaves override, branch and branch merge, leaf-vs-branch: u wins, the rest of t is kept.  t, u plain trees.
    flags collects what happened (for the outcome class)."""
    res = {k: (merge(v, {}, (), None) if isinstance(v, dict) else v) for k, v in t.items()}
    for k, uv in u.items():
        if isinstance(uv, dict):
            if k in res and isinstance(res[k], dict):
                if flags is not None:
                    flags.add('merge')
                res[k] = merge(res[k], uv, ignore, flags)
            else:
                if k in res and flags is not None:
                    flags.add('branch-over-leaf')
                res[k] = merge({}, uv, ignore, None)
        else:
            if k in res:
                if ignore and _ignored(uv, ignore):
                    if flags is not None:
                        flags.add('ignored')
                    continue
                if flags is not None:
                    flags.add('leaf-over-branch' if isinstance(res[k], dict) else 'override')
            res[k] = uv
    return res


def klass(flags):
    if not flags:
        return 'disjoint'
    for c in ('leaf-over-branch', 'branch-over-leaf', 'ignored', 'merge', 'override'):
        if c in flags:
            return c if len(flags) == 1 else c + '+'
    return 'other'


def snapshot(tree):
    """every branch object with its (key, value object) list, every list leaf with a copy of its content; the first record also keeps a plain deep copy
    of the whole tree (only used to word a violation)"""
    res = [(None, None, plain(tree))]
    stack = [(tree, ())]
    while stack:
        node, path = stack.pop()
        items = list(dict.items(node))
        res.append((node, path, items))
        for k, v in items:
            if isinstance(v, dict):
                stack.append((v, path + (k,)))
            elif type(v) is list:
                res.append((v, path + (k,), list(v)))
    return res


def changed(snap):
    """None if every branch object still holds the same keys in the same order and the identical value objects; else a description"""
    for obj, path, items in snap:
        if obj is None:
            continue
        if isinstance(obj, dict):
            if len(obj) != len(items):
                return _describe(snap, path)
            for (k, v), (k0, v0) in zip(dict.items(obj), items):
                if v is not v0 or k != k0:
                    return _describe(snap, path)
        elif obj != items:
            return _describe(snap, path)
    return None


def _describe(snap, path):
    return 'the branch / list leaf at %r changed; the operand is now %s (was %s)' % ('.'.join(path) or '<root>', show(plain(snap[1][0]), 250), show(snap[0][2], 250)), len(path)


def _mutated(out, snap, who, op, label):
    ch = changed(snap)
    if ch is not None:
        if callable(label):
            label = label()
        out.viol('operand-mutated', '%s: operand %s was modified: %s' % (label, who, ch[0]), op=op, operand=who, depth=min(ch[1], 2))
        return True
    return False


def _ig(ignore):
    return None if ignore is None else list(ignore)


# ------------------------------------------------------------------------------------------------ suite: roundtrip

ROOT_KINDS = ['dict', 'Dict', 'dictattr', 'Dict*', 'dictattr*']


def gen_roundtrip(tier):
    n = 3 if tier == 'quick' else 4
    for t in trees('ab', 3, n, [1, None], ordered=True):
        yield {'t': t}
    has_extra = lambda s, vs: any('c' in p for p in s) or any(type(v) is list for v in vs)
    for t in trees('abc', 3, 2, [1, None, [1, 2]], ordered=True, need=has_extra):
        yield {'t': t}


def check_roundtrip(case):
    from pyg_base import tree_items, tree_keys, tree_values, items_to_tree, tree_getitem, tree_get, tree_update, Dict
    out = Out()
    items = case['t']
    model = build(items)
    flat = flatten(model)
    nested = any(len(p) > 1 for p, _ in flat)
    types = _types()
    for kind in ROOT_KINDS:
        out.sub()
        root, inner = types[kind]
        t = build(items, root, inner)
        snap = snapshot(t)
        label = '%s tree %s' % (kind, show(model))
        # ---- flatten
        try:
            got = tree_items(t)
            ks = tree_keys(t)
            vs = tree_values(t)
            out.call(3)
        except Exception as e:
            out.viol('raised', '%s: tree_items/keys/values raised %s: %s' % (label, type(e).__name__, e), op='flatten', exc=type(e).__name__)
            continue
        ok = isinstance(got, list) and all(isinstance(g, tuple) and len(g) >= 2 for g in got) and len(got) == len(flat)
        if ok:
            rest = list(flat)
            for g in got:
                for j, (p, leaf) in enumerate(rest):
                    if p == g[:-1] and _same_leaf(g[-1], _leaf_at(t, p)):
                        del rest[j]
                        break
                else:
                    ok = False
                    break
        if not ok:
            out.viol('items-differ', '%s: tree_items returned %s, expected the paths+leaves %s (any order)' % (label, show(got), show(flat)), kind=kind)
            continue
        if not (isinstance(ks, list) and len(ks) == len(got) and all(tuple(k) == g[:-1] for k, g in zip(ks, got))):
            out.viol('keys-values-order', '%s: tree_keys = %s but tree_items = %s' % (label, show(ks), show(got)), fn='tree_keys')
        if not (isinstance(vs, list) and len(vs) == len(got) and all(v is g[-1] for v, g in zip(vs, got))):
            out.viol('keys-values-order', '%s: tree_values = %s but tree_items = %s' % (label, show(vs), show(got)), fn='tree_values')
        # ---- rebuild
        try:
            back = items_to_tree(got)
            out.call()
            if not isinstance(back, dict) or plain(back) != model:
                out.viol('roundtrip-differs', '%s: items_to_tree(tree_items(t)) = %s' % (label, show(plain(back))), kind=kind)
        except Exception as e:
            out.viol('raised', '%s: items_to_tree(tree_items(t)) raised %s: %s' % (label, type(e).__name__, e), op='items_to_tree', exc=type(e).__name__)
        # ---- getitem / get
        sentinel = object()
        for g in got:
            path, leaf = g[:-1], g[-1]
            for sp, spelled in (('tuple', tuple(path)), ('list', list(path)), ('dotted', '.'.join(path))):
                try:
                    r = tree_getitem(t, spelled)
                    out.call()
                    if r is not leaf:
                        out.viol('getitem-wrong', '%s: tree_getitem(t, %r) = %r, expected the leaf %r' % (label, spelled, r, leaf), spelling=sp)
                except Exception as e:
                    out.viol('raised', '%s: tree_getitem(t, %r) raised %s: %s' % (label, spelled, type(e).__name__, e), op='tree_getitem', spelling=sp)
                try:
                    r = tree_get(t, spelled, sentinel)
                    out.call()
                    if r is not leaf:
                        out.viol('get-wrong', '%s: tree_get(t, %r, default) = %r, expected the leaf %r' % (label, spelled, r, leaf), spelling=sp, missing=False)
                except Exception as e:
                    out.viol('raised', '%s: tree_get(t, %r) raised %s: %s' % (label, spelled, type(e).__name__, e), op='tree_get', spelling=sp)
            for miss in (tuple(path) + (MISSING,), tuple(path[:-1]) + (MISSING,), (MISSING,)):
                for sp, spelled in (('tuple', miss), ('list', list(miss)), ('dotted', '.'.join(miss))):
                    try:
                        r = tree_get(t, spelled, sentinel)
                        r0 = tree_get(t, spelled)
                        out.call(2)
                        if r is not sentinel or r0 is not None:
                            out.viol('get-wrong', '%s: tree_get(t, %r, default) = %r and without default %r, expected the default' % (label, spelled, r, r0),
                                     spelling=sp, missing=True)
                    except Exception as e:
                        out.viol('raised', '%s: tree_get(t, %r) raised %s: %s' % (label, spelled, type(e).__name__, e), op='tree_get', spelling=sp, missing=True)
        if _mutated(out, snap, 't', 'read', label):
            continue
        # ---- identities of the merge
        idents = [('tree_update(t,t)', lambda: tree_update(t, t)), ('tree_update(t,{})', lambda: tree_update(t, {})),
                  ('tree_update(t,t,ignore=[None])', lambda: tree_update(t, t, ignore=[None])),
                  ('tree_update(t,{},ignore=[None,1])', lambda: tree_update(t, {}, ignore=[None, 1])),
                  ('items_to_tree([],tree=t)', lambda: items_to_tree([], tree=t)),
                  ('tree_update({},t)', lambda: tree_update({}, t))]
        if root is Dict:
            idents += [('t+{}', lambda: t + {}), ('t+t', lambda: t + t)]
        for name, f in idents:
            try:
                r = f()
                out.call()
            except Exception as e:
                out.viol('raised', '%s: %s raised %s: %s' % (label, name, type(e).__name__, e), op=name, exc=type(e).__name__)
                continue
            if not isinstance(r, dict) or plain(r) != model:
                out.viol('identity-differs', '%s: %s = %s, expected t' % (label, name, show(plain(r))), op=name)
            if _mutated(out, snap, 't', name, label):
                break
        if nested:
            out.nontrivial(kind)
    out.cls('nested' if nested else 'flat')
    out.cls('%d-leaves' % len(flat))
    return out


def _leaf_at(t, path):
    node = t
    for k in path:
        node = dict.__getitem__(node, k)
    return node


def _same_leaf(got, real):
    return got is real or (type(got) is type(real) and type(real) is list and got == real)


# ------------------------------------------------------------------------------------------------ suite: update_pairs

IGN = {'none': None, 'None': [None], 'None,1': [None, 1], 'x': ['x'], 'None,2': [None, 2]}
SPELL = ['tuple', 'list', 'dotted']


PLAN = {
    # (t-family, u-family, ignore menu, ops): ops 'all' = tree_update + items_to_tree (+ Dict + dict, tree_setitem, subclass root), 'tu' = tree_update only
    'quick': [('T3', 'U2', ['none'], 'all'), ('T2', 'UX', ['None', 'None,1', 'None,2'], 'all'), ('TC2', 'UC2', ['none', 'x'], 'all')],
    'thorough': [('T3', 'U3', ['none'], 'all'), ('T3', 'U3', ['None,1', 'x'], 'tu'), ('T4only', 'U2', ['none'], 'all'),
                 ('T3', 'UX', ['None,1', 'None,2'], 'all'), ('T2', 'UX', ['none', 'None'], 'all'),
                 ('TC3', 'UC2', ['none'], 'all'), ('TC2', 'UX', ['None', 'None,1'], 'all')],
}


def gen_pairs(tier):
    """one case = one t x a whole u-family x an ignore menu"""
    for tf, uf, igs, ops in PLAN[tier]:
        for t in family(tf):
            yield {'t': t, 'us': uf, 'ign': igs, 'ops': ops}


FAMDESC = {
    'T3': 'T3 (<=3 leaves, keys ab, depth<=3, leaves 1/None)', 'T2': 'T2 (as T3, <=2 leaves)', 'T4only': 'T4 (as T3, exactly 4 leaves)',
    'U3': 'U3 (<=3 leaves, keys ab, depth<=3, leaves 2/x)', 'U2': 'U2 (as U3, <=2 leaves)',
    'UX': 'UX (<=2 leaves, keys ab, depth<=3, leaves None/1/2 with at least one None or 1)',
    'TC2': 'TC2 (<=2 leaves, keys abc, depth<=2, leaves 1/None/[1,2])', 'TC3': 'TC3 (as TC2, depth<=3)', 'UC2': 'UC2 (<=2 leaves, keys abc, depth<=2, leaves 2/x)',
}


def plan_text(tier):
    return '; '.join('%s=%d x %s=%d x ignore in {%s}%s' % (FAMDESC[tf], len(family(tf)), FAMDESC[uf], len(family(uf)), ', '.join(repr(IGN[i]) for i in igs),
                                                           ' (tree_update only)' if ops == 'tu' else '') for tf, uf, igs, ops in PLAN[tier])


def pairs_count(tier):
    return sum(len(family(tf)) * len(family(uf)) * len(igs) for tf, uf, igs, _ in PLAN[tier])


def check_pairs(case):
    from pyg_base import tree_items, items_to_tree, tree_update, tree_setitem, Dict, dictattr
    out = Out()
    titems = case['t']
    us = family(case['us'])
    fine = len(us) <= 700
    all_ops = case.get('ops', 'all') == 'all'
    mt = build(titems)
    ignores = [(name, IGN[name]) for name in case['ign']]
    tshow = show(mt, 200)

    # three layouts of t: (root, inner); rebuilt (with a new snapshot) whenever a violation may have polluted them
    layouts = {'A': (dict, dict), 'B': (Dict, Dict), 'C': (dictattr, dictattr)}
    ts = {}

    def fresh_t(key):
        t = build(titems, *layouts[key])
        ts[key] = (t, snapshot(t))
        return ts[key]

    for key in layouts:
        fresh_t(key)
    # layout H: t as plain dicts in which equal branches are one shared object; the merge must still treat the two paths separately
    probe = build(titems)
    has_shared = share(probe) > 0

    def fresh_h():
        t = build(titems)
        share(t)
        ts['H'] = (t, snapshot(t))
        return ts['H']
    if has_shared:
        layouts['H'] = (dict, dict)
        fresh_h()
    ulayouts = {'A': (dict, dict), 'B': (dictattr, dict), 'C': (Dict, Dict), 'S': (_Sub, dict)}

    for ui, uitems in enumerate(us):
        mu = build(uitems)
        first = True
        ureal = {}          # layout -> (u, snapshot): one u object per layout serves every call of this pair (verified after each, rebuilt if it changed)
        for iname, ignore in ignores:
            out.sub()
            flags = set()
            expect = merge(mt, mu, ignore or (), flags)
            c = klass(flags)
            out.cls(c)
            if flags:
                out.nontrivial(ui if fine else c)
            ops = [('tree_update', 'A', 'A')]
            if all_ops:
                ops.append(('items_to_tree', 'C', 'C'))
            if has_shared:
                ops.append(('tree_update', 'H', 'A'))
            if first and all_ops:
                ops.append(('Dict+', 'B', 'B'))
                if ui % 3 == 0:
                    ops.append(('tree_update', 'A', 'S'))
            first = False
            for op, tk, uk in ops:
                if ignore is not None and op == 'Dict+':
                    continue
                t, tsnap = ts[tk]
                if uk not in ureal:
                    u = build(uitems, *ulayouts[uk])
                    ureal[uk] = (u, snapshot(u))
                u, usnap = ureal[uk]
                label = lambda: '%s(t=%s %s, u=%s %s, ignore=%r)' % (op, layouts[tk][0].__name__, tshow, ulayouts[uk][0].__name__, show(mu, 200), ignore)
                try:
                    if op == 'tree_update':
                        r = tree_update(t, u) if ignore is None else tree_update(t, u, ignore=_ig(ignore))
                    elif op == 'Dict+':
                        r = t + u
                        # the same sum started from an EMPTY Dict: (Dict() + t) + u, every partial sum being a Dict that merges like one
                        r0_ = (Dict() + t) + u
                        out.call(2)
                        if type(r0_) is not Dict or plain(r0_) != expect:
                            out.viol('merge-differs', '(Dict() + t) + u with t=%s u=%s = %s %s, expected the Dict %s' % (tshow, show(mu, 200), type(r0_).__name__, show(plain(r0_)), show(expect)),
                                     op='Dict+', cls=c.rstrip('+'), from_empty=True)
                    else:
                        r = items_to_tree(tree_items(u), tree=t, ignore=_ig(ignore))
                    out.call()
                except Exception as e:
                    out.viol('raised', '%s raised %s: %s' % (label(), type(e).__name__, e), op=op, exc=type(e).__name__, u=uk)
                    fresh_h() if tk == 'H' else fresh_t(tk)
                    del ureal[uk]
                    continue
                if not isinstance(r, dict) or plain(r) != expect:
                    out.viol('merge-differs', '%s = %s, expected %s' % (label(), show(plain(r)), show(expect)), op=op, cls=c.rstrip('+'))
                if _mutated(out, tsnap, 't', op, label):
                    fresh_h() if tk == 'H' else fresh_t(tk)
                if _mutated(out, usnap, 'u', op, label):
                    del ureal[uk]
            # tree_setitem on a copy, single-path updates only
            if len(uitems) == 1 and all_ops:
                path, value = uitems[0][:-1], uitems[0][-1]
                for si, sp in enumerate(SPELL):
                    for lk in ('A', 'B', 'C') if si == 0 else ('A',):
                        cpy = build(titems, *layouts[lk])
                        spelled = tuple(path) if sp == 'tuple' else list(path) if sp == 'list' else '.'.join(path)
                        label = 'tree_setitem(copy of %s %s, %r, %r, ignore=%r)' % (layouts[lk][0].__name__, tshow, list(path) if sp == 'list' else spelled, value, ignore)
                        try:
                            rv = tree_setitem(cpy, spelled, value) if ignore is None else tree_setitem(cpy, spelled, value, ignore=_ig(ignore))
                            out.call()
                        except Exception as e:
                            out.viol('raised', '%s raised %s: %s' % (label, type(e).__name__, e), op='tree_setitem', exc=type(e).__name__)
                            continue
                        if plain(cpy) != expect:
                            out.viol('merge-differs', '%s left %s, expected %s' % (label, show(plain(cpy)), show(expect)), op='tree_setitem', cls=c.rstrip('+'))
                        if type(spelled) is list and spelled != list(path):
                            out.viol('operand-mutated', '%s: the key list became %r' % (label, spelled), op='tree_setitem', operand='key')
    return out


# ------------------------------------------------------------------------------------------------ suite: edge_trees
# (1) keys that CONTAIN a dot ('a.b' next to a -> b): such a key is one key; paths are spelt as tuples / lists only (the dotted spelling is ambiguous there)
# (2) trees t holding EMPTY branches ({} below the root): only for the merge (flattening loses an empty branch by construction); u has none

EMPTY = '<empty branch>'
DOTKEYS = ('a', 'b', 'a.b')


def _build_e(items, root=dict, inner=dict):
    """build() where the leaf marker EMPTY becomes an empty branch"""
    tree = build(items, root, inner)

    def walk(node):
        for k in list(dict.keys(node)):
            v = dict.__getitem__(node, k)
            if isinstance(v, dict):
                walk(v)
            elif v == EMPTY:
                dict.__setitem__(node, k, inner())
    walk(tree)
    return tree


def gen_edge(tier):
    n = 2 if tier == 'quick' else 3
    dotted = lambda s, vs: any('a.b' in p for p in s)
    for t in trees(DOTKEYS, 3, n, [1, None], need=dotted):
        yield {'f': 'dot', 't': t}
    # the EMPTY STRING as a key: a key like any other, one step of the path (tuple / list spellings)
    for t in trees(('a', 'b', ''), 3, n, [1, None], need=lambda s, vs: any('' in p for p in s)):
        yield {'f': 'dot', 't': t}
    for t in trees(DOTKEYS, 3 if tier == 'thorough' else 2, 2, [1], need=None):
        yield {'f': 'dotpairs', 't': t}
    for t in trees('ab', 3, n, [1, EMPTY], need=lambda s, vs: EMPTY in vs):
        yield {'f': 'empty', 't': t}


def check_edge(case):
    from pyg_base import tree_items, tree_keys, tree_values, items_to_tree, tree_getitem, tree_update, Dict, dictattr
    out = Out()
    items = case['t']
    types = _types()
    if case['f'] == 'dot':
        model = build(items)
        flat = flatten(model)
        for kind in ROOT_KINDS:
            out.sub()
            root, inner = types[kind]
            t = build(items, root, inner)
            snap = snapshot(t)
            label = '%s tree %s' % (kind, show(model))
            try:
                got = tree_items(t)
                ks, vs = tree_keys(t), tree_values(t)
                out.call(3)
                ok = sorted((g[:-1], repr(g[-1])) for g in got) == sorted((p, repr(v)) for p, v in flat)
                if not ok:
                    out.viol('items-differ', '%s: tree_items returned %s, expected the paths+leaves %s (any order)' % (label, show(got), show(flat)), kind=kind, dotted=True)
                    continue
                if [tuple(k) for k in ks] != [g[:-1] for g in got] or any(v is not g[-1] for v, g in zip(vs, got)) or len(vs) != len(got):
                    out.viol('keys-values-order', '%s: tree_keys = %s, tree_values = %s but tree_items = %s' % (label, show(ks), show(vs), show(got)), fn='tree_keys', dotted=True)
                for base in (None, dict, Dict, dictattr):
                    back = items_to_tree(got) if base is None else items_to_tree(got, tree=base())
                    out.call()
                    if not isinstance(back, dict) or plain(back) != model:
                        out.viol('roundtrip-differs', '%s: items_to_tree(tree_items(t)%s) = %s' % (label, '' if base is None else ', tree=%s()' % base.__name__, show(plain(back))),
                                 kind=kind, dotted=True)
                        break
                for g in got:
                    for spelled in (tuple(g[:-1]), list(g[:-1])):
                        r = tree_getitem(t, spelled)
                        out.call()
                        if r is not g[-1]:
                            out.viol('getitem-wrong', '%s: tree_getitem(t, %r) = %r, expected the leaf %r' % (label, spelled, r, g[-1]), spelling=type(spelled).__name__, dotted=True)
                for name, f in (('tree_update(t,t)', lambda: tree_update(t, t)), ('tree_update(t,{})', lambda: tree_update(t, {})), ('tree_update({},t)', lambda: tree_update({}, t)),
                                ('tree_update(Dict(),t)', lambda: tree_update(Dict(), t))) + ((('t+t', lambda: t + t),) if root is Dict else ()):
                    r = f()
                    out.call()
                    if not isinstance(r, dict) or plain(r) != model:
                        out.viol('identity-differs', '%s: %s = %s, expected t' % (label, name, show(plain(r))), op=name, dotted=True)
            except Exception as e:
                out.viol('raised', '%s: %s: %s' % (label, type(e).__name__, e), op='dotted-keys', exc=type(e).__name__)
                continue
            _mutated(out, snap, 't', 'dotted-keys', label)
            out.nontrivial(kind)
        out.cls('dotted-key')
        return out

    # ---- merges: 'dotpairs' = t x every u of the same family; 'empty' = t with empty branches x U2
    if case['f'] == 'dotpairs':
        us = [u for u in trees(DOTKEYS, 2, 2, [2])]
        build_t = build
    else:
        us = family('U2')
        build_t = _build_e
    mt = build_t(items)
    layouts = {'A': (dict, dict), 'B': (Dict, Dict), 'C': (dictattr, dictattr)}
    for ui, uitems in enumerate(us):
        mu = build(uitems)
        if case['f'] == 'dotpairs' and not (any('a.b' in it[:-1] for it in items) or any('a.b' in it[:-1] for it in uitems)):
            continue
        out.sub()
        flags = set()
        expect = merge(mt, mu, (), flags)
        for lk, (root, inner) in layouts.items():
            t = build_t(items, root, inner)
            u = build(uitems, root, inner)
            ts, us_ = snapshot(t), snapshot(u)
            ops = [('tree_update', lambda: tree_update(t, u)), ('items_to_tree', lambda: items_to_tree(tree_items(u), tree=t))]
            if root is Dict:
                ops.append(('Dict+', lambda: t + u))
            for op, f in ops:
                label = lambda: '%s(t=%s %s, u=%s %s)' % (op, root.__name__, show(mt, 200), root.__name__, show(mu, 200))
                try:
                    r = f()
                    out.call()
                except Exception as e:
                    out.viol('raised', '%s raised %s: %s' % (label(), type(e).__name__, e), op=op, exc=type(e).__name__, family=case['f'])
                    continue
                if not isinstance(r, dict) or plain(r) != expect:
                    out.viol('merge-differs', '%s = %s, expected %s' % (label(), show(plain(r)), show(expect)), op=op, family=case['f'])
                if _mutated(out, ts, 't', op, label) or _mutated(out, us_, 'u', op, label):
                    break
        out.cls('%s:%s' % (case['f'], klass(flags)))
        if flags:
            out.nontrivial('%s|%d' % (case['f'], ui))
    return out


# ------------------------------------------------------------------------------------------------ suite: ignore_lists
# leaves that are themselves lists, and ignore lists naming such leaves -- including an ignore list whose ONLY element is a list ([[]], [[1, 2]])

IGL = [None, [[]], [[1, 2]], [None, []], [[], [1, 2]], [[]] * 2, [[None]]]
LLEAF = [[], [1, 2], None, [None], 1]


def gen_ignore_lists():
    for ti in range(len(LLEAF)):
        for ui in range(len(LLEAF)):
            for depth in (1, 2):
                for gi in range(len(IGL)):
                    yield {'t': ti, 'u': ui, 'depth': depth, 'ig': gi}


def check_ignore_lists(case):
    from pyg_base import tree_update, items_to_tree, tree_items, tree_setitem, Dict
    import copy as _copy
    out = Out()
    tl, ul, ig0 = LLEAF[case['t']], LLEAF[case['u']], IGL[case['ig']]
    path = ['a'] if case['depth'] == 1 else ['a', 'b']

    def mk(leaf, root=dict):
        leaf = _copy.deepcopy(leaf)
        return root(a=leaf) if case['depth'] == 1 else root(a=root(b=leaf), k=0)
    ignored = ig0 is not None and any(type(x) is type(ul) and x == ul for x in ig0)
    want = mk(tl) if ignored else mk(ul)
    if case['depth'] == 2:
        want['k'] = 0
    label = 't=%r u=%r ignore=%r' % (mk(tl), mk(ul), ig0)
    sig = dict(ig=repr(ig0), ignored=ignored)
    for op in ('tree_update', 'items_to_tree', 'tree_setitem', 'Dict-tree_update'):
        out.sub()
        t, u, ig = mk(tl, Dict if op.startswith('Dict') else dict), mk(ul), _copy.deepcopy(ig0)
        try:
            if op.endswith('tree_update'):
                r = tree_update(t, u) if ig is None else tree_update(t, u, ignore=ig)
            elif op == 'items_to_tree':
                r = items_to_tree(tree_items(u), tree=t) if ig is None else items_to_tree(tree_items(u), tree=t, ignore=ig)
            else:
                r = _copy.deepcopy(t)
                tree_setitem(r, list(path), _copy.deepcopy(ul)) if ig is None else tree_setitem(r, list(path), _copy.deepcopy(ul), ignore=ig)
            out.call()
        except Exception as e:
            out.viol('raised', '%s(%s) raised %s: %s' % (op, label, type(e).__name__, e), op=op, exc=type(e).__name__, **sig)
            continue
        if not isinstance(r, dict) or plain(r) != want:
            out.viol('merge-differs', '%s(%s) = %s, expected %s (%s)' % (op, label, show(plain(r)) if isinstance(r, dict) else r, show(want),
                                                                        'the leaf of u is on the ignore list: t keeps its own' if ignored else 'the leaf of u is not ignored: it overrides'), op=op, **sig)
        if ig != ig0 or plain(u) != mk(ul) or (op != 'tree_setitem' and plain(t) != mk(tl)):
            out.viol('operand-mutated', '%s(%s) changed an operand: t=%r u=%r ignore=%r' % (op, label, plain(t), plain(u), ig), op=op, operand='any', depth=case['depth'])
    out.cls('ignore-list:%s' % ('none' if ig0 is None else 'ignored' if ignored else 'not-ignored'))
    if ignored:
        out.nontrivial()
    return out


# ------------------------------------------------------------------------------------------------ suite: update_chains

CHAIN_LEAF = {'t': 1, 'u': 2, 'v': 'x', 'w': 3}
CHAIN_LAYOUT = {'dict': ('dict', 'dict'), 'Dict*': ('Dict*', 'dictattr'), 'dictattr*': ('dictattr*', 'Dict')}


def chain_shapes():
    return shapes('ab', 3, 2)


def gen_chains(tier):
    """quick: length 2 in the dict layout; thorough: length 2 in all three layouts, length 3 (w = the single-path shapes) in the dict layout"""
    S = chain_shapes()
    for kind in (['dict'] if tier == 'quick' else list(CHAIN_LAYOUT)):
        for ti in range(len(S)):
            for ui in range(len(S)):
                deep = kind == 'dict' and tier != 'quick' and S[ti][0][0] == 'a'      # the mirror image (a <-> b) of every other t is among these
                yield {'t': [list(p) for p in S[ti]], 'u': [list(p) for p in S[ui]], 'kind': kind, 'depth': 3 if deep else 2}


def _with_leaf(shape, leaf):
    return [list(p) + [leaf] for p in shape]


def check_chain(case):
    from pyg_base import tree_update
    out = Out()
    types = _types()
    S = chain_shapes()
    kind = case['kind']
    tk, ok = CHAIN_LAYOUT[kind]
    depth = case['depth']
    titems, uitems = _with_leaf(case['t'], CHAIN_LEAF['t']), _with_leaf(case['u'], CHAIN_LEAF['u'])
    t, u = build(titems, *types[tk]), build(uitems, *types[ok])
    mt, mu = build(titems), build(uitems)
    kept = [('t', snapshot(t), t, mt), ('u', snapshot(u), u, mu)]       # (name, snapshot, object, model): everything built so far stays alive and is re-inspected

    def verify(label, op):
        """every kept operand / earlier result against its identity+content snapshot (taken when it equalled its model)"""
        bad = False
        for name, snap, obj, model in kept:
            if _mutated(out, snap, name, op, label):        # complete: every branch object by identity and content (there are no list leaves here)
                bad = True
        return bad

    def step(name, a, ma, b, mb, label):
        """r = tree_update(a, b) against the model; returns (r, model, flags), r None when it failed"""
        flags = set()
        expect = merge(ma, mb, (), flags)
        out.sub()
        out.cls('step%s:%s' % (name[1:], klass(flags).rstrip('+')))
        try:
            r = tree_update(a, b)
            out.call()
        except Exception as e:
            out.viol('raised', '%s raised %s: %s' % (label(), type(e).__name__, e), op='chain-' + name, exc=type(e).__name__)
            return None, None, flags
        if not isinstance(r, dict) or plain(r) != expect:
            out.viol('merge-differs', '%s = %s, expected %s' % (label(), show(plain(r)), show(expect)), op='chain-' + name, cls=klass(flags).rstrip('+'))
            return None, None, flags
        return r, expect, flags

    base = 't=%s u=%s (layout %s)' % (show(mt, 120), show(mu, 120), kind)
    label1 = lambda: 'r1 = tree_update(t, u) with ' + base
    r1, m1, f1 = step('r1', t, mt, u, mu, label1)
    if verify(label1, 'chain-r1') or r1 is None:
        return out
    kept.append(('r1', snapshot(r1), r1, m1))
    for vi, vshape in enumerate(S):
        vitems = _with_leaf(vshape, CHAIN_LEAF['v'])
        mv = build(vitems)
        for dirn in ('L', 'R'):
            v = build(vitems, *types[ok if dirn == 'L' else tk])
            kept.append(('v', snapshot(v), v, mv))
            if dirn == 'L':
                label2 = lambda: 'r1 = tree_update(t, u); r2 = tree_update(r1, v) with %s v=%s' % (base, show(mv, 120))
                r2, m2, f2 = step('r2', r1, m1, v, mv, label2)
            else:
                label2 = lambda: 'r1 = tree_update(t, u); r2 = tree_update(v, r1) with %s v=%s' % (base, show(mv, 120))
                r2, m2, f2 = step('r2', v, mv, r1, m1, label2)
            if f1 and f2:
                out.nontrivial(vi)
            if verify(label2, 'chain-r2'):
                return out          # a kept object is no longer what its model says; everything later would be noise
            if r2 is not None and depth >= 3 and dirn == 'L':
                kept.append(('r2', snapshot(r2), r2, m2))
                for wi, wshape in enumerate(S):
                    if len(wshape) > 1:
                        continue
                    witems = _with_leaf(wshape, CHAIN_LEAF['w'])
                    mw = build(witems)
                    w = build(witems, *types[ok])
                    kept.append(('w', snapshot(w), w, mw))
                    label3 = lambda: '%s; r3 = tree_update(r2, w) with w=%s' % (label2(), show(mw, 120))
                    r3, m3, f3 = step('r3', r2, m2, w, mw, label3)
                    if verify(label3, 'chain-r3'):
                        return out
                    kept.pop()      # w
                kept.pop()          # r2
            kept.pop()              # v
    return out


# ------------------------------------------------------------------------------------------------ suite: table_tree

PATTERNS = ['k/%a', '%a/v', '%a/%b', 'k/%a/v/%b', '%a/k/%b/v', '%a/%b/%c', 'k/%a/%b/v/%c', '%a/%b/%c/%d', 'k/%a/j/%b/%c/%d', '%a/%b/k/%c/%d/v']
KEYCELLS = ['a', 'b']
LEAFCELLS = [1, None, 'x']


def _segments(pattern):
    segs = pattern.split('/')
    names = [s[1:] for s in segs if s.startswith('%')]
    leaf_wild = segs[-1].startswith('%')
    return segs, names, leaf_wild


def gen_tables(tier):
    maxrows = 3
    for pattern in PATTERNS:
        segs, names, leaf_wild = _segments(pattern)
        nkeys = len(names) - (1 if leaf_wild else 0)
        keycells = KEYCELLS + ['c'] if (tier != 'quick' and nkeys <= 2) else KEYCELLS
        keytuples = list(itertools.product(keycells, repeat=nkeys))
        for n in range(0, maxrows + 1):
            for kts in (itertools.combinations(keytuples, n) if (tier == 'quick' and n == 3) else itertools.permutations(keytuples, n)):
                for leaves in (itertools.product(LEAFCELLS, repeat=n) if leaf_wild else [None]):
                    rows = [list(kt) + ([leaves[i]] if leaf_wild else []) for i, kt in enumerate(kts)]
                    yield {'pattern': pattern, 'rows': rows}
        # a leaf cell that is itself a list / tuple (one row, also given as a bare dict / Dict): the leaf is that list, whole
        if leaf_wild:
            for leaf in ([1, 2], [3], [], (1, 2)):
                yield {'pattern': pattern, 'rows': [['a'] * nkeys + [leaf]]}
                if nkeys:
                    yield {'pattern': pattern, 'rows': [['a'] * nkeys + [leaf], ['b'] * nkeys + [1]]}
        # cells that are SPELT like a wildcard of the pattern ('%b' in column a ...): they are data
        if len(names) >= 2:
            for shift in range(1, len(names)):
                row = ['%' + names[(i + shift) % len(names)] for i in range(len(names))]
                yield {'pattern': pattern, 'rows': [row]}
                yield {'pattern': pattern, 'rows': [row, ['a'] * nkeys + ([1] if leaf_wild else [])]}


def _row_items(segs, names, row):
    cells = dict(zip(names, row))
    return [cells[s[1:]] if s.startswith('%') else s for s in segs]


def _bases(segs):
    """base trees (as item lists) derived from the pattern: (name, items, rows-are-exactly-decidable)"""
    inst = lambda c, leaf: [c if s.startswith('%') else s for s in segs[:-1]] + [leaf if segs[-1].startswith('%') else segs[-1]]
    res = [('none', None), ('empty', []), ('same-a', [inst('a', 'old')]), ('same-ab', [inst('a', 'old'), inst('b', 0)]),
           ('other', [[MISSING, 'y', 0]] + [inst('b', 'old')])]
    full = inst('a', 'old')
    for cut in range(1, len(full) - 1):
        res.append(('leaf-at-%d' % cut, [full[:cut] + [0], [MISSING, 0]]))        # a leaf where the pattern needs a branch
    res.append(('deeper', [full[:-1] + ['q', 0]]))                                   # a branch where the pattern puts a leaf
    return res


def _model_rows(model, segs):
    """rows that the pattern matches in a plain tree whose leaf paths are no longer than the pattern"""
    rows = []
    for path, leaf in flatten(model):
        item = list(path) + [leaf]
        if len(item) != len(segs):
            continue
        row = {}
        for s, x in zip(segs, item):
            if s.startswith('%'):
                row[s[1:]] = x
            elif s != x:
                break
        else:
            rows.append(row)
    return rows


def _same_rows(got, expect, superset=False):
    got = [dict(g) for g in got]
    if not superset and len(got) != len(expect):
        return False
    for e in expect:
        for j, g in enumerate(got):
            if row_eq(g, e) and all((g[k] is None) == (e[k] is None) and isinstance(g[k], str) == isinstance(e[k], str) for k in e):
                del got[j]
                break
        else:
            return False
    return True


def _walk(node, segs, binding):
    """(binding, node reached) for every way of matching the pattern segments against a plain model tree"""
    if not segs:
        yield dict(binding), node
    elif isinstance(node, dict):
        seg = segs[0]
        if seg.startswith('%'):
            for k, v in node.items():
                yield from _walk(v, segs[1:], dict(binding, **{seg[1:]: k}))
        elif seg in node:
            yield from _walk(node[seg], segs[1:], binding)


def check_table(case):
    from pyg_base import table_to_tree, tree_to_table, dictable, Dict, dictattr
    out = Out()
    pattern, rows = case['pattern'], case['rows']
    segs, names, leaf_wild = _segments(pattern)
    rowdicts = [dict(zip(names, r)) for r in rows]
    uitems = [_row_items(segs, names, r) for r in rows]
    mu = build(uitems)
    spellings = [('dictable', lambda: dictable(**{n: [r[i] for r in rows] for i, n in enumerate(names)})), ('list', lambda: [dict(r) for r in rowdicts])]
    if len(rows) == 1:
        spellings.append(('dict', lambda: dict(rowdicts[0])))
        spellings.append(('Dict', lambda: Dict(rowdicts[0])))
    roots = [dict, Dict, dictattr]
    for bi, (bname, bitems) in enumerate(_bases(segs)):
        mb = {} if bitems is None else build(bitems)
        flags = set()
        expect = merge(mb, mu, (), flags)
        exact = all(len(p) + 1 <= len(segs) for p, _ in flatten(expect))
        expect_rows = _model_rows(expect, segs) if exact else rowdicts
        c = klass(flags)
        for si, (sname, mk) in enumerate(spellings):
            out.sub()
            out.cls(('no-base' if bitems is None else c.rstrip('+')) if rows else 'no-rows')
            if flags:
                out.nontrivial('%s/%s' % (bname, sname))
            root = roots[(bi + si) % 3]
            base = None if bitems is None else build(bitems, root, dict if bi % 2 else root)
            bsnap = None if base is None else snapshot(base)
            table = mk()
            kw = {}
            if base is not None and si == 1:
                kw = dict(base=None)               # new branches take type(tree)
            label = 'table_to_tree(%s, %r, %s %s%s)' % ('None' if base is None else '%s %s' % (root.__name__, show(mb, 200)), pattern, sname, show(rowdicts, 300),
                                                       ', base=None' if kw else '')
            try:
                tree = table_to_tree(base, pattern, table, **kw)
                out.call()
            except Exception as e:
                out.viol('raised', '%s raised %s: %s' % (label, type(e).__name__, e), op='table_to_tree', exc=type(e).__name__, base=bname.split('-')[0])
                continue
            if bsnap is not None:
                ch = changed(bsnap)
                if ch is not None:
                    out.viol('operand-mutated', '%s modified the base tree: %s' % (label, ch[0]), op='table_to_tree', operand='base', depth=min(ch[1], 2))
            if not isinstance(tree, dict) or plain(tree) != expect:
                out.viol('table-tree-differs', '%s = %s, expected %s' % (label, show(plain(tree)), show(expect)), base=bname.split('-')[0], cls=c.rstrip('+'))
                continue
            try:
                back = tree_to_table(tree, pattern)
                out.call()
                if not isinstance(back, list) or not _same_rows(back, expect_rows, superset=not exact):
                    out.viol('table-roundtrip-differs', 'tree_to_table(%s, %r) = %s, expected the rows %s%s' % (label, pattern, show(back), show(expect_rows),
                                                                                                               '' if exact else ' (at least)'),
                             fn='tree_to_table', base=bname.split('-')[0])
                elif exact:
                    # the other direction: the rows read from the tree rebuild exactly the part of the tree that the pattern matches
                    again = table_to_tree(None, pattern, back)
                    out.call()
                    expect2 = build([[r[s[1:]] if s.startswith('%') else s for s in segs] for r in expect_rows])
                    if not isinstance(again, dict) or plain(again) != expect2:
                        out.viol('table-roundtrip-differs', 'table_to_tree(None, %r, tree_to_table(tree, %r)) = %s, expected %s; tree = %s'
                                 % (pattern, pattern, show(plain(again)), show(expect2), label), fn='table_to_tree.tree_to_table', base=bname.split('-')[0])
            except Exception as e:
                out.viol('raised', 'tree_to_table(%s, %r) [or rebuilding from its rows] raised %s: %s' % (label, pattern, type(e).__name__, e), op='tree_to_table', exc=type(e).__name__)
            # ---- leaf=True on the pattern cut short: the closing wildcard takes WHATEVER hangs there, a whole branch included
            if si == 0:
                for j in range(1, len(segs)):
                    if not any(x.startswith('%') for x in segs[:j]):
                        continue
                    cut = '/'.join(segs[:j] + ['%rest'])
                    want = []
                    for b, node in _walk(expect, segs[:j], {}):
                        want.append(dict(b, rest=node))
                    try:
                        got = tree_to_table(tree, cut, leaf=True)
                        out.call()
                        ok = isinstance(got, list) and len(got) == len(want)
                        if ok:
                            rest_ = list(want)
                            for g in got:
                                hit = [i for i, w in enumerate(rest_) if set(g) == set(w) and all((plain(g[k]) == w[k]) for k in w)]
                                if not hit:
                                    ok = False
                                    break
                                del rest_[hit[0]]
                        if not ok:
                            out.viol('table-roundtrip-differs', 'tree_to_table(tree, %r, leaf=True) = %s, expected one row per match of the prefix, %%rest holding whatever hangs there: %s; tree = %s'
                                     % (cut, show([{k: plain(v) for k, v in g.items()} for g in got] if isinstance(got, list) else got, 400), show(want, 400), show(expect, 300)),
                                     fn='tree_to_table-leaf', base=bname.split('-')[0])
                    except Exception as e:
                        out.viol('raised', 'tree_to_table(%s, %r, leaf=True) raised %s: %s' % (label, cut, type(e).__name__, e), op='tree_to_table-leaf', exc=type(e).__name__)
            try:
                tbl = dictable(tree, pattern)
                out.call()
                got = list(tbl)
                if len(tbl) != len(got) or not _same_rows(got, expect_rows, superset=not exact):
                    out.viol('table-roundtrip-differs', 'dictable(%s, %r) has the rows %s, expected %s%s' % (label, pattern, show([dict(g) for g in got]), show(expect_rows),
                                                                                                           '' if exact else ' (at least)'),
                             fn='dictable', base=bname.split('-')[0])
            except Exception as e:
                out.viol('raised', 'dictable(%s, %r) raised %s: %s' % (label, pattern, type(e).__name__, e), op='dictable', exc=type(e).__name__)
    return out


# ------------------------------------------------------------------------------------------------

def suites(tier, seed):
    quick = tier == 'quick'
    nS = len(chain_shapes())
    return [
        Suite('roundtrip', lambda: gen_roundtrip(tier), check_roundtrip,
              rule='every tree with <= %d leaves, paths <= 3 over keys {a,b}, leaves {1,None}, in every per-branch key order, plus every <= 2-leaf tree over '
                   '{a,b,c} with leaves {1,None,[1,2]} that uses c or a list leaf, x 5 root/branch type layouts: flatten, unzip, rebuild, getitem/get in 3 '
                   'spellings (+3 missing paths each), merge identities, t untouched; non-trivial = (tree, layout) with a nested branch' % (3 if quick else 4),
              bounds=dict(max_leaves=3 if quick else 4, max_depth=3, keys=2, keys_small_trees=3, layouts=len(ROOT_KINDS))),
        Suite('update_pairs', lambda: gen_pairs(tier), check_pairs,
              rule='all pairs (t, u) x ignore lists: %s; per (pair, ignore): tree_update, items_to_tree(tree_items(u), tree=t), Dict + dict (for ignore=None), '
                   'tree_setitem on a copy for 1-leaf u (3 key spellings), a non-library dict subclass as root of u for every third u; recursive merge model; '
                   'identity+content snapshots of every branch of t and u after every call; non-trivial = t and u share a first key (counted per pair in '
                   'u-families <= 700, per (t, outcome class) in the larger ones); %d (pair, ignore) combinations' % (plan_text(tier), pairs_count(tier)),
              bounds=dict(max_leaves_t=3 if quick else 4, max_leaves_u=2 if quick else 3, max_depth=3, ignore_lists=5, pair_ignore_combinations=pairs_count(tier))),
        Suite('edge_trees', lambda: gen_edge(tier), check_edge,
              rule='(1) every tree with <= %d leaves over the keys {a, b, a.b} (a key that CONTAINS a dot next to the path a -> b), depth <= 3, x 5 layouts: flatten, '
                   'unzip, rebuild (onto nothing / dict / Dict / dictattr), getitem by tuple and list, merge identities; all pairs of such trees (t <= 2 leaves, u <= 2 '
                   'leaves, depth <= 2%s) in 3 layouts through tree_update, items_to_tree(tree=t), Dict + dict; (2) every tree with <= %d leaves-or-EMPTY-branches over '
                   '{a,b} holding at least one empty branch x U2 in 3 layouts: merge model, t and u untouched; non-trivial = per (tree, layout) resp. overlapping pair'
                   % (2 if quick else 3, '' if quick else '; t depth <= 3', 2 if quick else 3),
              bounds=dict(max_leaves=2 if quick else 3, max_depth=3, layouts=3)),
        Suite('ignore_lists', gen_ignore_lists, check_ignore_lists,
              rule='leaves of t and u from %r at depth 1 / 2 x ignore in %r (incl. ignore lists whose only element is a list) through tree_update (dict and Dict roots), '
                   'items_to_tree and tree_setitem; an ignored leaf of u never overrides' % (LLEAF, IGL), bounds=dict(leaves=len(LLEAF), ignores=len(IGL))),
        Suite('update_chains', lambda: gen_chains(tier), check_chain,
              rule='all chains over the %d shapes with <= 2 leaves (keys ab, depth <= 3; leaves t:1 u:2 v:x w:3): r1 = tree_update(t,u); r2 = tree_update(r1,v) and '
                   'tree_update(v,r1) %s; after every call every kept operand and earlier result (t, u, v, w, r1, r2) is compared with its identity+content '
                   'snapshot; non-trivial = (t, u, v) where both t,u and r1,v overlap'
                   % (nS, 'in the dict layout' if quick else 'in 3 type layouts; in the dict layout, for every t that has a path starting with a (the others are their a<->b mirror images), also r3 = tree_update(r2,w) for every single-path w'),
              bounds=dict(shapes=nS, chain_length=2 if quick else 3, layouts=1 if quick else 3)),
        Suite('table_tree', lambda: gen_tables(tier), check_table,
              rule='%d patterns with 1..4 wildcards x all tables of 0..3 rows (%s) with pairwise different paths (key cells %s, leaf cells 1/None/x) x base trees '
                   '(none, empty, overlapping rows, unrelated, a leaf where the pattern needs a branch at every depth, a branch where it puts a leaf) x table '
                   'spellings (dictable, list of dicts, a single dict): table_to_tree == merge model, base untouched, tree_to_table and dictable(tree, pattern) '
                   'return the rows as a multiset and those rows rebuild the matched part of the tree; non-trivial = the table overlaps the base tree' % (len(PATTERNS), 'every row order; 3-row tables in one order' if quick else 'every row order', 'a/b' if quick else 'a/b/c for <= 2 key columns, a/b for more'),
              bounds=dict(patterns=len(PATTERNS), max_rows=3, key_cells=2 if quick else 3, leaf_cells=3)),
    ]
