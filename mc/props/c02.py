"""
C02 -- join is the relational inner/cross join, xor the anti-join; both terminate (DESIGN.md section 4, C02).

E2: all pairs of small tables over an 8-value key domain (None, 1, 1.0, 2, two NaN objects of different identity, 'a',
a datetime), 0..3 key columns, every lcols/rcols spelling and mode, against a nested-loop relational model.
E4: every join/xor call runs under a termination monitor (sys.settrace on the join/xor/_listby frames only):
an exact repeat of (while-header line, l, r, len(res)) is a lasso = proven non-termination; a deterministic fuel
bound on line events backs it up should the cursors be renamed.
"""
import ast
import collections
import datetime
import itertools
import os
import sys

from mc.engine import Suite, Out
from mc.codec import show

PROPERTY = 'C02'
ASSUMPTIONS = [
    'key equality as the statement defines it: None==None, NaN==NaN whatever the identity, an int equals the same-valued float, otherwise same type and ==',
    'bool and date-vs-datetime keys are outside the key domain (+-inf keys: suite `infs`); output row order and which of two equal representatives (1 vs 1.0) is shown are not checked',
    'columns of an EMPTY join result are not checked (statement silent)',
    'termination: lasso on the merge cursors at while-headers, or more than FUEL line events inside join/xor/_listby (a correct merge of <=4x4 rows needs < 1500)',
]

FUEL = 60000
_DT = datetime.datetime(2000, 1, 1)


class NonTermination(BaseException):
    def __init__(self, why, state=None):
        BaseException.__init__(self, why)
        self.why = why
        self.state = state


_MON = {}


def _monitor_setup():
    if 'file' in _MON:
        return
    import pyg_base._dictable as D
    path = os.path.realpath(D.__file__)
    tree = ast.parse(open(path).read())
    lines = set()
    for node in ast.walk(tree):
        if isinstance(node, ast.FunctionDef) and node.name in ('join', 'xor'):
            for sub in ast.walk(node):
                if isinstance(sub, ast.While):
                    lines.add(sub.lineno)
    _MON['file'] = D.__file__
    _MON['realfile'] = path
    _MON['while'] = lines


class Monitor:
    def __init__(self):
        _monitor_setup()
        self.steps = 0
        self.seen = set()

    def glob(self, frame, event, arg):
        co = frame.f_code
        if co.co_name in ('join', 'xor', '_listby') and (co.co_filename == _MON['file'] or os.path.realpath(co.co_filename) == _MON['realfile']):
            return self.local
        return None

    def local(self, frame, event, arg):
        if event == 'line':
            self.steps += 1
            if self.steps > FUEL:
                raise NonTermination('fuel', self.steps)
            ln = frame.f_lineno
            if ln in _MON['while']:
                loc = frame.f_locals
                l, r = loc.get('l'), loc.get('r')
                if type(l) is int and type(r) is int:
                    res = loc.get('res')
                    st = (ln, l, r, len(res) if isinstance(res, list) else -1)
                    if st in self.seen:
                        raise NonTermination('lasso', st)
                    self.seen.add(st)
        return self.local

    def run(self, f):
        old = sys.gettrace()
        sys.settrace(self.glob)
        try:
            return f()
        finally:
            sys.settrace(old)


# ------------------------------------------------------------------------------------------------ values

K8 = ['None', '1', '1.0', '2', 'nan#1', 'nan#2', "'a'", 'dt', "'aa'", "'b'", '+inf', '-inf', '100001', '100002', '0.0', '1e-9', '100001.0']      # from 'aa' on only in the `strings` / `infs` / `close` suites
KCLOSE = [12, 13, 14, 15, 16]         # numbers that are close but different (ids differing by 1 beyond 1e5, 0 and 1e-9): different keys; 100001 == 100001.0 is one key
KINF = [10, 11, 4, 5, 1]              # +inf, -inf, nan#1, nan#2, 1: infinities are ordinary float keys, equal only to themselves
KSTR = [6, 8, 9, 1]                   # 'a', 'aa', 'b', 1: strings of different lengths ('aa' < 'b' alphabetically, but longer)
K6 = [0, 1, 2, 4, 5, 6]
K4 = [1, 4, 5, 6]        # 1, nan#1, nan#2, 'a'
K3 = [1, 4, 5]
K3M = [1, 4, 6]         # 1, nan#1, 'a'


def mk(i, nans):
    n = K8[i]
    if n == 'None':
        return None
    if n == '1':
        return 1
    if n == '1.0':
        return 1.0
    if n == '2':
        return 2
    if n == "'a'":
        return 'a'
    if n == 'dt':
        return _DT
    if n == "'aa'":
        return 'aa'
    if n == "'b'":
        return 'b'
    if n == '+inf':
        return float('inf')
    if n == '-inf':
        return float('-inf')
    if n in ('100001', '100002'):
        return int(n)
    if n in ('0.0', '1e-9', '100001.0'):
        return float(n)
    return nans[n]


def keq(a, b):
    """the statement's key equality"""
    if a is None or b is None:
        return a is None and b is None
    fa, fb = isinstance(a, float) and a != a, isinstance(b, float) and b != b
    if fa or fb:
        return fa and fb
    na = isinstance(a, (int, float)) and not isinstance(a, bool)
    nb = isinstance(b, (int, float)) and not isinstance(b, bool)
    if na or nb:
        return na and nb and a == b
    return type(a) is type(b) and a == b


def _cls(v):
    if v is None:
        return 'N'
    if isinstance(v, float) and v != v:
        return 'nan'
    if isinstance(v, (int, float)):
        return 'num'
    return type(v).__name__


def seqs(dom, lo, hi):
    for n in range(lo, hi + 1):
        for s in itertools.product(dom, repeat=n):
            yield list(s)


# ------------------------------------------------------------------------------------------------ core comparison

def _rows(t):
    return list(t)


def _call(out, label, f, sig):
    """run f under the termination monitor; returns (ok, result)"""
    m = Monitor()
    try:
        r = m.run(f)
        out.call()
        return True, r
    except NonTermination as e:
        out.call()
        out.viol('non-termination', '%s: %s %s after %d line events' % (label, e.why, e.state, m.steps), why=e.why, **sig)
        return False, None
    except Exception as e:
        out.call()
        out.viol('raised', '%s raised %s: %s' % (label, type(e).__name__, e), exc=type(e).__name__, **sig)
        return False, None


def _snap(t):
    return {k: list(v) for k, v in t.items()}


def _unchanged(t, snap):
    return set(t.keys()) == set(snap) and all(len(t[k]) == len(snap[k]) and all(a is b for a, b in zip(t[k], snap[k])) for k in snap)


def check_join(out, label, res, lrows, rrows, lkeyf, rkeyf, keycols, jmode, sig, lid='v', rid='w', jcol='j'):
    """res must be the multiset of matching (l, r) pairs"""
    expect = collections.Counter()
    for i, l in enumerate(lrows):
        for j, r in enumerate(rrows):
            lk, rk = lkeyf(l), rkeyf(r)
            if all(keq(a, b) for a, b in zip(lk, rk)):
                expect[(i, j)] += 1
    try:
        rows = _rows(res)
        got = collections.Counter((row[lid], row[rid]) for row in rows) if (expect or len(rows)) else collections.Counter()
    except Exception as e:
        out.viol('join-result-broken', '%s: reading the result raised %s: %s (columns %s)' % (label, type(e).__name__, e, list(res.keys())), **sig)
        return expect
    if got != expect:
        missing = sorted((expect - got).elements())
        extra = sorted((got - expect).elements())
        out.viol('join-wrong-pairs', '%s: missing (left row, right row) pairs %s, unexpected pairs %s' % (label, missing[:6], extra[:6]),
                 missing=bool(missing), extra=bool(extra), **sig)
        return expect
    for row in rows:
        l, r = lrows[row[lid]], rrows[row[rid]]
        lk, rk = lkeyf(l), rkeyf(r)
        for c, a, b in zip(keycols, lk, rk):
            if not (keq(row[c], a) and keq(row[c], b)):
                out.viol('join-wrong-key', '%s: output row for pair (%s,%s) carries key %s=%r, sides have %r / %r' % (label, row[lid], row[rid], c, row[c], a, b), **sig)
                return expect
        for c in l:
            if c not in keycols and c != jcol and (c not in row or not (row[c] is l[c] or row[c] == l[c])):
                out.viol('join-wrong-cell', '%s: column %s of pair (%s,%s) is %r, left row has %r' % (label, c, row[lid], row[rid], row.get(c, '<missing>'), l[c]), **sig)
                return expect
        for c in r:
            if c not in keycols and c != jcol and c not in l and (c not in row or not (row[c] is r[c] or row[c] == r[c])):
                out.viol('join-wrong-cell', '%s: column %s of pair (%s,%s) is %r, right row has %r' % (label, c, row[lid], row[rid], row.get(c, '<missing>'), r[c]), **sig)
                return expect
        if jcol in l and jcol in r:
            lj, rj = l[jcol], r[jcol]
            if jmode is None:
                want = (lj, rj)
            elif jmode in ('l', 0, 'left'):
                want = lj
            elif jmode in ('r', 1, 'rhs'):
                want = rj
            else:
                want = (lj, rj, 'f')
            if jcol not in row or row[jcol] != want:
                out.viol('join-wrong-mode', '%s: shared column %s of pair (%s,%s) is %r, mode %r prescribes %r' % (
                    label, jcol, row[lid], row[rid], row.get(jcol, '<missing>'), jmode, want), mode=str(jmode), **{k: v for k, v in sig.items() if k != 'mode'})
                return expect
    return expect


def check_xor(out, label, res, xrows, yrows, xkeyf, ykeyf, xcols, idcol, sig):
    expect = [i for i, l in enumerate(xrows) if not any(all(keq(a, b) for a, b in zip(xkeyf(l), ykeyf(r))) for r in yrows)]
    try:
        rows = _rows(res)
        got = sorted(row[idcol] for row in rows) if (expect or len(rows)) else []
    except Exception as e:
        out.viol('xor-result-broken', '%s: reading the result raised %s: %s (columns %s)' % (label, type(e).__name__, e, list(res.keys())), **sig)
        return expect
    if got != sorted(expect):
        out.viol('xor-wrong-rows', '%s: expected the rows with ids %s, got %s' % (label, sorted(expect), got),
                 missing=bool(set(expect) - set(got)), extra=bool(collections.Counter(got) - collections.Counter(expect)), **sig)
        return expect
    for row in rows:
        src = xrows[row[idcol]]
        if set(row.keys()) != set(xcols) or any(row[c] is not src[c] for c in xcols):
            out.viol('xor-wrong-cell', '%s: row %r differs from the original row %r' % (label, dict(row), src), **sig)
            break
    return expect


# ------------------------------------------------------------------------------------------------ suites

def _tables(lk, rk, with_j=True, rkey='k', ncol=1):
    """lk / rk: lists of key tuples (one tuple per row, one entry per key column)"""
    from pyg_base import dictable
    nl, nr = len(lk), len(rk)
    lnames = ['k', 'k2', 'k3'][:ncol]
    rnames = [rkey] + ['k2', 'k3'][:ncol - 1]
    L = {c: [row[i] for row in lk] for i, c in enumerate(lnames)}
    R = {c: [row[i] for row in rk] for i, c in enumerate(rnames)}
    L['v'] = list(range(nl))
    R['w'] = list(range(nr))
    if with_j:
        L['j'] = ['L%d' % i for i in range(nl)]
        R['j'] = ['R%d' % i for i in range(nr)]
    x, y = dictable(L), dictable(R)
    lrows = [{c: L[c][i] for c in L} for i in range(nl)]
    rrows = [{c: R[c][i] for c in R} for i in range(nr)]
    return x, y, lrows, rrows, lnames, rnames


def _nontrivial(out, lk, rk):
    lks, rks = [tuple(t) for t in lk], [tuple(t) for t in rk]
    matched = any(all(keq(a, b) for a, b in zip(l, r)) for l in lks for r in rks)
    unmatched = any(not any(all(keq(a, b) for a, b in zip(l, r)) for r in rks) for l in lks)
    dup = any(all(keq(a, b) for a, b in zip(p, q)) for s in (lks, rks) for p, q in itertools.combinations(s, 2))
    classes = set(_cls(v) for t in lks + rks for v in t)
    nan = 'nan' in classes
    if (matched and unmatched) or dup or len(classes - {'nan'}) + (1 if nan else 0) > 1 or nan:
        out.nontrivial()
    out.cls('%s%s%s%s' % ('M' if matched else '-', 'U' if unmatched else '-', 'D' if dup else '-', 'N' if nan else '-'))


def check_basic(case):
    """one key column (or more), the plain spelling: join + xor + xor(mode='r') under the monitor"""
    out = Out()
    nans = {'nan#1': float('nan'), 'nan#2': float('nan')}
    lk = [tuple(mk(i, nans) for i in row) for row in case['l']]
    rk = [tuple(mk(i, nans) for i in row) for row in case['r']]
    ncol = case['ncol']
    x, y, lrows, rrows, lnames, rnames = _tables(lk, rk, ncol=ncol)
    sx, sy = _snap(x), _snap(y)
    cols = lnames if ncol > 1 else 'k'
    sig = dict(ncol=ncol)
    lab = 'l=%s r=%s' % (show(lk), show(rk))
    kf = lambda row: tuple(row[c] for c in lnames)
    out.sub(3)
    ok, res = _call(out, 'x.join(y, %r) %s' % (cols, lab), lambda: x.join(y, cols), dict(op='join', **sig))
    if ok:
        pairs = check_join(out, 'x.join(y, %r) %s' % (cols, lab), res, lrows, rrows, kf, kf, lnames, None, dict(op='join', **sig))
    ok1, res1 = _call(out, 'x.xor(y, %r) %s' % (cols, lab), lambda: x.xor(y, cols), dict(op='xor', **sig))
    if ok1:
        rest = check_xor(out, 'x.xor(y, %r) %s' % (cols, lab), res1, lrows, rrows, kf, kf, list(lrows[0].keys()) if lrows else [], 'v', dict(op='xor', **sig))
        if ok:
            inj = set(i for i, _ in pairs)
            if sorted(list(inj) + rest) != list(range(len(lrows))):
                out.viol('not-a-partition', '%s: rows in the join %s and in xor %s do not partition x' % (lab, sorted(inj), rest), **sig)
    ok2, res2 = _call(out, "x.xor(y, %r, mode='r') %s" % (cols, lab), lambda: x.xor(y, cols, mode='r'), dict(op='xor-r', **sig))
    if ok2:
        check_xor(out, "x.xor(y, %r, mode='r') %s" % (cols, lab), res2, rrows, lrows, kf, kf, list(rrows[0].keys()) if rrows else [], 'w', dict(op='xor-r', **sig))
    if ncol > 1:
        # the same join with the key names listed in reverse, and against a right table that stores its columns in reverse order:
        # names, not positions, decide which columns are compared
        from pyg_base import dictable
        yr = dictable({c: list(y[c]) for c in list(y.keys())[::-1]})
        for name, f in (('x.join(y, reversed names)', lambda: x.join(y, lnames[::-1])), ('x.join(y stored in reverse column order, names)', lambda: x.join(yr, lnames)),
                        ('x.join(y stored in reverse, names, names)', lambda: x.join(yr, lnames, lnames))):
            out.sub()
            okr, resr = _call(out, '%s %s' % (name, lab), f, dict(op='join', variant=name[:24], **sig))
            if okr:
                check_join(out, '%s %s' % (name, lab), resr, lrows, rrows, kf, kf, lnames, None, dict(op='join', variant=name[:24], **sig))
        # a right table that holds NOTHING but its key columns, the key names listed in another order than it stores them: names, not positions
        out.sub()
        yk = dictable({c: list(y[c]) for c in rnames})
        okr, resr = _call(out, 'x.join(y with key columns only, reversed names) %s' % lab, lambda: x.join(yk, lnames[::-1]), dict(op='join', variant='keys-only', **sig))
        if okr:
            wantc = collections.Counter()
            for i, l in enumerate(lrows):
                m_ = sum(1 for r in rrows if all(keq(a, b) for a, b in zip(kf(l), kf(r))))
                if m_:
                    wantc[i] = m_
            try:
                gotc = collections.Counter(row['v'] for row in resr) if (wantc or len(resr)) else collections.Counter()
                if gotc != wantc:
                    out.viol('join-wrong-pairs', 'x.join(y with key columns only, %r) %s: left rows matched %s, expected %s (left row -> number of equal right keys)' % (
                        lnames[::-1], lab, dict(gotc), dict(wantc)), missing=bool(wantc - gotc), extra=bool(gotc - wantc), op='join', variant='keys-only', **sig)
            except Exception as e:
                out.viol('join-result-broken', 'x.join(y with key columns only): %s: %s' % (type(e).__name__, e), op='join', variant='keys-only', **sig)
        # a computed key (callable) in FIRST position next to a plain name: every key value must come out under its own key column
        out.sub()
        lc = [lambda k: k] + lnames[1:]
        okr, resr = _call(out, 'x.join(y, [lambda k: k, %s], names) %s' % (', '.join(map(repr, lnames[1:])), lab), lambda: x.join(y, lc, lnames), dict(op='join', variant='callable-first', **sig))
        if okr:
            check_join(out, 'x.join(y, [lambda k: k, %s], names) %s' % (', '.join(map(repr, lnames[1:])), lab), resr, lrows, rrows, kf, kf, lnames, None,
                       dict(op='join', variant='callable-first', **sig))
        out.sub()
        okr, resr = _call(out, 'x.xor(y stored in reverse column order, names) %s' % lab, lambda: x.xor(yr, lnames), dict(op='xor', variant='reversed', **sig))
        if okr:
            check_xor(out, 'x.xor(y stored in reverse column order, names) %s' % lab, resr, lrows, rrows, kf, kf, list(lrows[0].keys()) if lrows else [], 'v',
                      dict(op='xor', variant='reversed', **sig))
    if not (_unchanged(x, sx) and _unchanged(y, sy)):
        out.viol('operand-mutated', '%s: an operand changed' % lab, **sig)
    _nontrivial(out, lk, rk)
    return out


def _f21(k):
    return 1 if (isinstance(k, int) and k == 2) else k


def check_spellings(case):
    """every spelling of the key columns and every mode, one key column"""
    from pyg_base import dictable
    out = Out()
    nans = {'nan#1': float('nan'), 'nan#2': float('nan')}
    lk = [(mk(i, nans),) for i in case['l']]
    rk = [(mk(i, nans),) for i in case['r']]
    lab = 'l=%s r=%s' % (show([t[0] for t in lk]), show([t[0] for t in rk]))
    kf = lambda row: (row['k'],)
    # --- key spellings on tables that share the non-key column j
    x, y, lrows, rrows, _, _ = _tables(lk, rk)
    sx, sy = _snap(x), _snap(y)
    spell = [("'k'", lambda: x.join(y, 'k')), ("['k']", lambda: x.join(y, ['k'])), ("('k',)", lambda: x.join(y, ('k',))),
             ("'k','k'", lambda: x.join(y, 'k', 'k')), ("lcols='k',rcols=['k']", lambda: x.join(y, lcols='k', rcols=['k']))]
    for name, f in spell:
        out.sub()
        ok, res = _call(out, 'x.join(y, %s) %s' % (name, lab), f, dict(op='join', spelling=name))
        if ok:
            check_join(out, 'x.join(y, %s) %s' % (name, lab), res, lrows, rrows, kf, kf, ['k'], None, dict(op='join', spelling=name))
    for mode in (None, 'l', 'r', 0, 1, 'left', 'rhs', 'fn'):
        out.sub()
        m = (lambda a, b: (a, b, 'f')) if mode == 'fn' else mode
        ok, res = _call(out, 'x.join(y, \'k\', mode=%r) %s' % (mode, lab), lambda: x.join(y, 'k', mode=m), dict(op='join', mode=str(mode)))
        if ok:
            check_join(out, 'x.join(y, \'k\', mode=%r) %s' % (mode, lab), res, lrows, rrows, kf, kf, ['k'], mode, dict(op='join', mode=str(mode)))
    for name, f in [("'k'", lambda: x.xor(y, 'k')), ("['k']", lambda: x.xor(y, ['k'])), ("'k','k',mode='l'", lambda: x.xor(y, 'k', 'k', mode='l')),
                    ("'k',mode=0", lambda: x.xor(y, 'k', mode=0))]:
        out.sub()
        ok, res = _call(out, 'x.xor(y, %s) %s' % (name, lab), f, dict(op='xor', spelling=name))
        if ok:
            check_xor(out, 'x.xor(y, %s) %s' % (name, lab), res, lrows, rrows, kf, kf, ['k', 'v', 'j'], 'v', dict(op='xor', spelling=name))
    for name, f in [("'k',mode='r'", lambda: x.xor(y, 'k', mode='r')), ("'k',mode=1", lambda: x.xor(y, 'k', mode=1))]:
        out.sub()
        ok, res = _call(out, 'x.xor(y, %s) %s' % (name, lab), f, dict(op='xor-r', spelling=name))
        if ok:
            check_xor(out, 'x.xor(y, %s) %s' % (name, lab), res, rrows, lrows, kf, kf, ['k', 'w', 'j'], 'w', dict(op='xor-r', spelling=name))
    # --- a callable key on either side (key 2 is mapped to 1)
    for name, f, lf, rf in [("lambda k: f(k), 'k'", lambda: x.join(y, lambda k: _f21(k), 'k'), lambda row: (_f21(row['k']),), kf),
                            ("'k', lambda k: f(k)", lambda: x.join(y, 'k', lambda k: _f21(k)), kf, lambda row: (_f21(row['k']),))]:
        out.sub()
        ok, res = _call(out, 'x.join(y, %s) %s' % (name, lab), f, dict(op='join', spelling='callable'))
        if ok:
            check_join(out, 'x.join(y, %s) %s' % (name, lab), res, lrows, rrows, lf, rf, ['k'], None, dict(op='join', spelling='callable'))
    # a computed key that tells an int from the equal float ('int:1' / 'float:1.0'): every row's key is the formula of THAT row
    tkey = lambda k: '%s:%r' % (type(k).__name__, k)
    tf = lambda row: (tkey(row['k']),)
    out.sub(2)
    yt = dictable(dict(tk=[tkey(t[0]) for t in rk], w=list(range(len(rk)))))            # the right table carries the typed key as a plain column
    rrt = [dict(tk=tkey(t[0]), w=i) for i, t in enumerate(rk)]
    rt = lambda row: (row['tk'],)
    ok, res = _call(out, "x.join(y_typed, lambda k: type+repr, 'tk') %s" % lab, lambda: x.join(yt, lambda k: tkey(k), 'tk'), dict(op='join', spelling='callable-typed'))
    if ok:
        check_join(out, "x.join(y_typed, lambda k: type+repr, 'tk') %s" % lab, res, lrows, rrt, tf, rt, ['tk'], None, dict(op='join', spelling='callable-typed'), jcol='no-shared-column')
    ok, res = _call(out, "x.xor(y_typed, lambda k: type+repr, 'tk') %s" % lab, lambda: x.xor(yt, lambda k: tkey(k), 'tk'), dict(op='xor', spelling='callable-typed'))
    if ok:
        check_xor(out, "x.xor(y_typed, lambda k: type+repr, 'tk') %s" % lab, res, lrows, rrt, tf, rt, ['k', 'v', 'j'], 'v', dict(op='xor', spelling='callable-typed'))
    out.sub()
    ok, res = _call(out, 'x.xor(y, lambda k: f(k), \'k\') %s' % lab, lambda: x.xor(y, lambda k: _f21(k), 'k'), dict(op='xor', spelling='callable'))
    if ok:
        check_xor(out, 'x.xor(y, lambda k: f(k), \'k\') %s' % lab, res, lrows, rrows, lambda row: (_f21(row['k']),), kf, ['k', 'v', 'j'], 'v',
                  dict(op='xor', spelling='callable'))
    if not (_unchanged(x, sx) and _unchanged(y, sy)):
        out.viol('operand-mutated', '%s: an operand changed (shared-column tables)' % lab)
    # --- the SAME table objects again after one key cell of x was overwritten in place: the join must see the table as it is now
    if lrows and rrows:
        out.sub(2)
        newk = rk[0][0] if not keq(lk[0][0], rk[0][0]) else (5 if not any(keq(5, t[0]) for t in rk) else 'zz')
        x['k'][0] = newk
        lrows_b = [dict(r) for r in lrows]
        lrows_b[0]['k'] = newk
        labb = 'after x.k[0] = %r (was %r): l=%s r=%s' % (newk, lk[0][0], show([r['k'] for r in lrows_b]), show([t[0] for t in rk]))
        ok, res = _call(out, "x.join(y, 'k') %s" % labb, lambda: x.join(y, 'k'), dict(op='join', spelling='after-edit'))
        if ok:
            check_join(out, "x.join(y, 'k') %s" % labb, res, lrows_b, rrows, kf, kf, ['k'], None, dict(op='join', spelling='after-edit'))
        ok, res = _call(out, "x.xor(y, 'k') %s" % labb, lambda: x.xor(y, 'k'), dict(op='xor', spelling='after-edit'))
        if ok:
            check_xor(out, "x.xor(y, 'k') %s" % labb, res, lrows_b, rrows, kf, kf, ['k', 'v', 'j'], 'v', dict(op='xor', spelling='after-edit'))
    # --- two same-named non-key columns (j and j2) next to an explicit key
    from pyg_base import dictable as _d2
    xj = _d2(dict(k=[t[0] for t in lk], v=list(range(len(lk))), j=['L%d' % i for i in range(len(lk))], j2=['M%d' % i for i in range(len(lk))]))
    yj = _d2(dict(k=[t[0] for t in rk], w=list(range(len(rk))), j=['R%d' % i for i in range(len(rk))], j2=['S%d' % i for i in range(len(rk))]))
    out.sub()
    ok, res = _call(out, "x.join(y, 'k') with two shared columns %s" % lab, lambda: xj.join(yj, 'k'), dict(op='join', spelling='two-shared'))
    if ok:
        lr2 = [dict(k=t[0], v=i, j='L%d' % i) for i, t in enumerate(lk)]          # j2 is compared below
        rr2 = [dict(k=t[0], w=i, j='R%d' % i) for i, t in enumerate(rk)]
        exp2 = check_join(out, "x.join(y, 'k') with two shared columns %s" % lab, res, lr2, rr2, kf, kf, ['k'], None, dict(op='join', spelling='two-shared'))
        try:
            for row in res:
                if row['j2'] != ('M%d' % row['v'], 'S%d' % row['w']):
                    out.viol('join-wrong-mode', 'second shared column j2 of pair (%s,%s) is %r' % (row['v'], row['w'], row['j2']), op='join', spelling='two-shared')
                    break
        except Exception as e:
            out.viol('join-result-broken', 'two shared columns: %s: %s' % (type(e).__name__, e), op='join', spelling='two-shared')
    # --- a table joined with ITSELF on two different columns (k against q = k rotated by one row)
    from pyg_base import dictable as _dd
    kk = [t[0] for t in lk]
    qq = kk[1:] + kk[:1]
    xs = _dd(dict(k=list(kk), q=list(qq), v=list(range(len(kk)))))
    sxs = _snap(xs)
    exp_pairs = collections.Counter((i, j) for i in range(len(kk)) for j in range(len(kk)) if keq(kk[i], qq[j]))
    out.sub(2)
    ok, res = _call(out, "x.join(x, 'k', 'q') with k=%s q=%s" % (show(kk), show(qq)), lambda: xs.join(xs, 'k', 'q'), dict(op='join', spelling='self'))
    if ok:
        try:
            got = collections.Counter(tuple(row['v']) for row in res) if (exp_pairs or len(res)) else collections.Counter()
            if got != exp_pairs:
                out.viol('join-wrong-pairs', "x.join(x, 'k', 'q') with k=%s q=%s: pairs %s, expected %s" % (show(kk), show(qq), sorted(got.elements()), sorted(exp_pairs.elements())),
                         op='join', spelling='self', missing=bool(exp_pairs - got), extra=bool(got - exp_pairs))
        except Exception as e:
            out.viol('join-result-broken', "x.join(x, 'k', 'q'): %s: %s" % (type(e).__name__, e), op='join', spelling='self')
    ok, res = _call(out, "x.xor(x, 'k', 'q') with k=%s q=%s" % (show(kk), show(qq)), lambda: xs.xor(xs, 'k', 'q'), dict(op='xor', spelling='self'))
    if ok:
        want = sorted(i for i in range(len(kk)) if not any(keq(kk[i], qq[j]) for j in range(len(kk))))
        try:
            gotx = sorted(res['v']) if (want or len(res)) else []
            if gotx != want:
                out.viol('xor-wrong-rows', "x.xor(x, 'k', 'q') with k=%s q=%s: rows %s, expected %s" % (show(kk), show(qq), gotx, want), op='xor', spelling='self',
                         missing=bool(set(want) - set(gotx)), extra=bool(set(gotx) - set(want)))
        except Exception as e:
            out.viol('xor-result-broken', "x.xor(x, 'k', 'q'): %s: %s" % (type(e).__name__, e), op='xor', spelling='self')
    if not _unchanged(xs, sxs):
        out.viol('operand-mutated', 'self join changed the table')
    # --- different key names left/right
    x2, y2, lrows2, rrows2, _, _ = _tables(lk, rk, rkey='q')
    out.sub(2)
    ok, res = _call(out, "x.join(y, 'k', 'q') %s" % lab, lambda: x2.join(y2, 'k', 'q'), dict(op='join', spelling='k,q'))
    if ok:
        check_join(out, "x.join(y, 'k', 'q') %s" % lab, res, lrows2, rrows2, kf, lambda row: (row['q'],), ['k'], None, dict(op='join', spelling='k,q'))
    ok, res = _call(out, "x.xor(y, 'k', 'q') %s" % lab, lambda: x2.xor(y2, 'k', 'q'), dict(op='xor', spelling='k,q'))
    if ok:
        check_xor(out, "x.xor(y, 'k', 'q') %s" % lab, res, lrows2, rrows2, kf, lambda row: (row['q'],), ['k', 'v', 'j'], 'v', dict(op='xor', spelling='k,q'))
    # --- automatic key columns (None), x * y and x / y: tables sharing ONLY the key column
    x3, y3, lrows3, rrows3, _, _ = _tables(lk, rk, with_j=False)
    s3x, s3y = _snap(x3), _snap(y3)
    for name, f in [('x.join(y)', lambda: x3.join(y3)), ('x * y', lambda: x3 * y3), ('x.join(dict-of-columns)', lambda: x3.join(dict(y3)))]:
        out.sub()
        ok, res = _call(out, '%s %s' % (name, lab), f, dict(op='join', spelling=name))
        if ok:
            check_join(out, '%s %s' % (name, lab), res, lrows3, rrows3, kf, kf, ['k'], None, dict(op='join', spelling=name))
    for name, f in [('x.xor(y)', lambda: x3.xor(y3)), ('x / y', lambda: x3 / y3)]:
        out.sub()
        ok, res = _call(out, '%s %s' % (name, lab), f, dict(op='xor', spelling=name))
        if ok:
            check_xor(out, '%s %s' % (name, lab), res, lrows3, rrows3, kf, kf, ['k', 'v'], 'v', dict(op='xor', spelling=name))
    # --- no key at all: the full cross product ([] / []), and x * y for tables with no common column
    out.sub(2)
    ok, res = _call(out, 'x.join(y, [], []) %s' % lab, lambda: x2.join(y2, [], []), dict(op='cross', spelling='[],[]'))
    allk = lambda row: ()
    if ok:
        check_join(out, 'x.join(y, [], []) %s' % lab, res, lrows2, rrows2, allk, allk, [], None, dict(op='cross', spelling='[],[]'))
    x4 = x3
    from pyg_base import dictable as _d
    y4 = _d(q=[r['k'] for r in rrows3], w=list(range(len(rrows3)))) if rrows3 else _d([], ['q', 'w'])
    rrows4 = [dict(q=r['k'], w=r['w']) for r in rrows3]
    ok, res = _call(out, 'x * y (no common column) %s' % lab, lambda: x4 * y4, dict(op='cross', spelling='x*y'))
    if ok:
        check_join(out, 'x * y (no common column) %s' % lab, res, lrows3, rrows4, allk, allk, [], None, dict(op='cross', spelling='x*y'))
    if not (_unchanged(x3, s3x) and _unchanged(y3, s3y)):
        out.viol('operand-mutated', '%s: an operand changed (key-only tables)' % lab)
    _nontrivial(out, lk, rk)
    return out


# ------------------------------------------------------------------------------------------------ suite modes: the shared non-key column, every mode, m x n key groups

JL = [None, 'L1', ('t', 2), 'L3']          # cells of the shared non-key column j by row number: None, a tuple and a list are cells like any other
JR = ['R0', None, ['u'], 'R3']
MODES = [None, 'l', 'r', 0, 1, 'left', 'rhs', 'fn']


def check_modes(case):
    """x.join(y, 'k', mode=m) for every mode on tables that share the non-key column j: the multiset of (left row, right row) pairs, and for every
    pair the cell the mode prescribes ((l, r) by default, l's, r's, f(l, r)) -- whatever the size of the key group and whatever the cells hold"""
    from pyg_base import dictable
    out = Out()
    nans = {'nan#1': float('nan'), 'nan#2': float('nan')}
    lk = [mk(i[0], nans) for i in case['l']]
    rk = [mk(i[0], nans) for i in case['r']]
    x = dictable(dict(k=list(lk), v=list(range(len(lk))), j=[JL[i] for i in range(len(lk))]))
    y = dictable(dict(k=list(rk), w=list(range(len(rk))), j=[JR[i] for i in range(len(rk))]))
    lrows = [dict(k=lk[i], v=i, j=JL[i]) for i in range(len(lk))]
    rrows = [dict(k=rk[i], w=i, j=JR[i]) for i in range(len(rk))]
    sx, sy = _snap(x), _snap(y)
    lab = 'l=%s r=%s (j: left %s right %s)' % (show(lk), show(rk), JL[:len(lk)], JR[:len(rk)])
    kf = lambda row: (row['k'],)
    groups = collections.Counter()
    for a in lk:
        n = sum(1 for b in rk if keq(a, b))
        m = sum(1 for b in lk if keq(a, b))
        groups[(min(m, 2), min(n, 2))] += 1
    big = groups.get((2, 2), 0) > 0
    for mode in MODES:
        out.sub()
        m = (lambda a, b: (a, b, 'f')) if mode == 'fn' else mode
        sig = dict(op='join', mode=str(mode), group='mxn' if big else 'small')
        ok, res = _call(out, "x.join(y, 'k', mode=%r) %s" % (mode, lab), lambda: x.join(y, 'k', mode=m), sig)
        if ok:
            check_join(out, "x.join(y, 'k', mode=%r) %s" % (mode, lab), res, lrows, rrows, kf, kf, ['k'], mode, sig)
    # ---- no key and no common column: the full cross product, whatever the cells hold (a tuple as long as the other table, a one-element list, a callable)
    if len(lk) <= 3 and len(rk) <= 2:
        out.sub(2)
        fcell = len                                                    # a callable is a cell like any other
        xc = dictable(dict(v=list(range(len(lk))), p=[JL[i] for i in range(len(lk))]))
        QR = [('t', 2), ['u'], fcell]
        yc = dictable(dict(w=list(range(len(rk))), q=[QR[i] for i in range(len(rk))]))
        lr = [dict(v=i, p=JL[i]) for i in range(len(lk))]
        rr = [dict(w=i, q=QR[i]) for i in range(len(rk))]
        nokey = lambda row: ()
        for name, f in (('x.join(y, [], [])', lambda: xc.join(yc, [], [])), ('x * y', lambda: xc * yc)):
            sigc = dict(op='cross', spelling=name, cells='non-scalar')
            labc = '%s with x.p=%s, y.q=%s' % (name, JL[:len(lk)], [('len' if c is fcell else c) for c in QR[:len(rk)]])
            ok, res = _call(out, labc, f, sigc)
            if ok:
                check_join(out, labc, res, lr, rr, nokey, nokey, [], None, sigc, jcol='no-shared-column')
    if not (_unchanged(x, sx) and _unchanged(y, sy)):
        out.viol('operand-mutated', '%s: an operand changed' % lab, op='join', suite='modes')
    out.cls('group-2x2' if big else 'group-1xn' if any(k[1] == 2 or k[0] == 2 for k in groups) else 'one-to-one' if groups.get((1, 1)) else 'no-match')
    if big or any(k[1] == 2 or k[0] == 2 for k in groups):
        out.nontrivial()
    return out


def gen_basic(dom, lmax, rmax, ncol=1, total=None):
    if ncol == 1:
        L = [[[i] for i in s] for s in seqs(dom, 0, lmax)]
        R = [[[i] for i in s] for s in seqs(dom, 0, rmax)]
    else:
        tup = [list(t) for t in itertools.product(dom, repeat=ncol)]
        L = [list(s) for n in range(0, lmax + 1) for s in itertools.product(tup, repeat=n)]
        R = [list(s) for n in range(0, rmax + 1) for s in itertools.product(tup, repeat=n)]
    for l in L:
        for r in R:
            if total is not None and len(l) + len(r) > total:
                continue
            yield {'l': l, 'r': r, 'ncol': ncol}


def gen_spell(lmax, rmax):
    for l in seqs(range(8), 0, lmax):
        for r in seqs(range(8), 0, rmax):
            yield {'l': l, 'r': r}


def suites(tier, seed):
    q = tier == 'quick'
    S = []
    if q:
        S.append(Suite('keys1', lambda: gen_basic(range(8), 3, 2), check_basic,
                       rule='all pairs of tables with 0..3 x 0..2 rows, one key column over the 8-value domain %s; join, xor, xor(mode=r) under the '
                            'termination monitor; non-trivial = a matched and an unmatched key, a duplicate key, two key types or a NaN key' % K8,
                       bounds=dict(left_rows=3, right_rows=2, key_values=8)))
        S.append(Suite('spellings', lambda: gen_spell(2, 1), check_spellings,
                       rule='all pairs 0..2 x 0..1 rows over the 8-value domain x every key spelling (names, lists, tuple, different names, callable on '
                            'either side, None/auto, * and /, [] = cross product) x every mode (None,l,r,0,1,left,rhs,callable)',
                       bounds=dict(left_rows=2, right_rows=1)))
        S.append(Suite('modes', lambda: gen_basic(K3M, 3, 3), check_modes,
                       rule='one key column over {1, nan#1, a}: all pairs 0..3 x 0..3 rows (key groups up to 3 x 3) sharing a non-key column whose cells are None, strings, '
                            'a tuple and a list x every mode (None,l,r,0,1,left,rhs,callable); non-trivial = a key occurring twice on one side', bounds=dict(left_rows=3, right_rows=3, key_values=3)))
        S.append(Suite('close', lambda: gen_basic(KCLOSE, 2, 2), check_basic,
                       rule='one key column over {100001, 100002, 0.0, 1e-9, 100001.0}: close but different numbers are different keys; all pairs 0..2 x 0..2 rows', bounds=dict(key_values=5)))
        S.append(Suite('strings', lambda: gen_basic(KSTR, 3, 2), check_basic,
                       rule="one key column over {'a','aa','b',1}: strings of different lengths, the longer one alphabetically smaller; all pairs 0..3 x 0..2 rows", bounds=dict(key_values=4)))
        S.append(Suite('infs', lambda: gen_basic(KINF, 2, 2), check_basic,
                       rule='one key column over {+inf, -inf, nan#1, nan#2, 1}: all pairs 0..2 x 0..2 rows', bounds=dict(key_values=5)))
        S.append(Suite('keys2', lambda: gen_basic(K4, 2, 1, ncol=2), check_basic,
                       rule='two key columns over the 4-value sub-domain {1,nan#1,nan#2,a} (two NaN identities): all pairs 0..2 x 0..1 rows', bounds=dict(ncol=2)))
        S.append(Suite('keys3', lambda: gen_basic(K3, 1, 1, ncol=3), check_basic,
                       rule='three key columns over {1, nan#1, nan#2}: all pairs 0..1 x 0..1 rows', bounds=dict(ncol=3)))
    else:
        S.append(Suite('keys1', lambda: gen_basic(range(8), 3, 3), check_basic,
                       rule='all pairs of tables with 0..3 x 0..3 rows, one key column over the 8-value domain %s; join, xor, xor(mode=r) under the '
                            'termination monitor' % K8, bounds=dict(left_rows=3, right_rows=3, key_values=8)))
        S.append(Suite('keys1_4x4', lambda: (c for c in gen_basic(K4, 4, 4, total=7) if len(c['l']) == 4 or len(c['r']) == 4), check_basic,
                       rule='one key column over the 4-value sub-domain {1,nan#1,nan#2,a}: all pairs with a 4-row side and at most 7 rows in total '
                            '(the 6-value sub-domain took 30 minutes)',
                       bounds=dict(left_rows=4, right_rows=4, total_rows=7, key_values=4)))
        S.append(Suite('spellings', lambda: gen_spell(2, 2), check_spellings,
                       rule='all pairs 0..2 x 0..2 rows over the 8-value domain x every key spelling x every mode', bounds=dict(left_rows=2, right_rows=2)))
        S.append(Suite('modes', lambda: gen_basic(K4, 4, 3), check_modes,
                       rule='one key column over {1, nan#1, nan#2, a}: all pairs 0..4 x 0..3 rows sharing a non-key column whose cells are None, strings, a tuple and a list x every mode',
                       bounds=dict(left_rows=4, right_rows=3, key_values=4)))
        S.append(Suite('close', lambda: gen_basic(KCLOSE, 3, 3), check_basic,
                       rule='one key column over {100001, 100002, 0.0, 1e-9, 100001.0}: close but different numbers are different keys; all pairs 0..3 x 0..3 rows', bounds=dict(key_values=5)))
        S.append(Suite('strings', lambda: gen_basic(KSTR, 3, 3), check_basic,
                       rule="one key column over {'a','aa','b',1}: strings of different lengths; all pairs 0..3 x 0..3 rows", bounds=dict(key_values=4)))
        S.append(Suite('infs', lambda: gen_basic(KINF, 3, 3), check_basic,
                       rule='one key column over {+inf, -inf, nan#1, nan#2, 1}: all pairs 0..3 x 0..3 rows', bounds=dict(key_values=5)))
        S.append(Suite('keys2', lambda: gen_basic(K4, 2, 2, ncol=2), check_basic,
                       rule='two key columns over {1,nan#1,nan#2,a}: all pairs 0..2 x 0..2 rows', bounds=dict(ncol=2)))
        S.append(Suite('keys3', lambda: gen_basic(K3, 2, 1, ncol=3), check_basic,
                       rule='three key columns over {1, nan#1, nan#2}: all pairs 0..2 x 0..1 rows', bounds=dict(ncol=3)))
    return S
