"""
C10 -- drange enumerates exactly t0, t0+bump, ... up to t1 for every kind of bump (DESIGN.md section 4, C10).

Engine E2.  One case = one start day x one time of day x one direction (t1 after / before t0); inside the case
every end point of the bound is combined with every bump of the alphabet (also the bumps that point AWAY from
t1).  Every drange call is compared with a reference that never calls pyg_base:

  * chain bumps (int, timedelta, 'kd','kw','km','kq','ky','kh','kn','ks', compound tenors): start at t0 and apply
    the C09 reference bump (mc.props.c09.expected: day arithmetic / exact seconds / month normalisation, compound =
    left-to-right fold) while the result stays inside the closed interval between t0 and t1;
  * business-day bumps 'kb': the days between the end points that are Mon-Fri, in increasing order ('-kb':
    decreasing), every |k|-th of them;
  * t0 == t1 -> [t0] for every bump;  a bump pointing away from t1 -> ValueError (a returned list, another exception
    or a call that does not come back within GUARD_S seconds is a violation);
  * int n, timedelta(days=n) and 'nd' give identical outcomes;  Calendar.drange of a holiday-free calendar gives the
    same outcome as drange for non-'b' bumps (the property's second observation point).
"""
import bisect
import datetime
import numpy as np
import re
import signal
import time

from mc.engine import Suite, Out
from mc.props import c09

PROPERTY = 'C10'
ASSUMPTIONS = [
    "Calendar.drange is observed for non-business-day bumps only (the property's observation point): every string ending in 'b', compound ones like '1w0b' "
    "included, is read there as a business-day count of the calendar (int(bump[:-1])) and is left out; drange itself is checked on them",
    "zero-length bumps (0, timedelta(0), '0d', '0b', ...) are excluded: drange(t0, t1, '0d') does not return; the statement does not say what a bump "
    'that points nowhere should do',
    'month-based bumps (m/q/y, and compound tenors / alternative spellings containing them) start from days of month <= 28 and from midnight only '
    '(statement: from a day of month that exists in every month; dt_bump resets the time of day for m/q/y)',
    "integer and business-day bumps are only used with end points a whole number of days apart (same time of day: 00:00 or 09:30); intraday end "
    "points are exercised with timedelta, 'kd', 'kh', 'kn', 'ks' and the '1d12h' tenors",
    't0 and t1 are always explicit datetimes (date_range resolves ints / bump strings relative to today); bump=None (the default step) is not claimed',
    'times of day are whole seconds for t0 (t1 may carry microseconds in the seconds group): with a microsecond part in t0 the rrule based branches '
    "(int, 'nd', 'nb', ...) drop it, so the list does not start at t0 and int n differs from timedelta(n) -- observed on the current tree, outside "
    'the alphabet of the design, reported to the maintainers of the check instead of being asserted here',
    "'kb' with |k| > 1 from a t0 that is a Saturday/Sunday: the statement says 'every k-th' of the weekdays between the end points but t0 itself is not "
    'in that list, so any of the |k| possible offsets is accepted (from a weekday t0, and for |k| = 1, the list is compared exactly)',
    'elements are compared with == (a pd.Timestamp equal to the datetime would pass); the result must be a list',
    'every call runs under a private watchdog of 2 s (a call normally takes < 1 ms): not coming back in time is reported as no-return, whatever the '
    'call would have done later; after two such calls the rest of the case is abandoned, and at most 40 violations are recorded per case (the '
    'verdict is a violation either way)',
]
EXPLANATION = ('start days 2023-12-20..2024-03-10 (year end, leap February, every weekday) x both directions x every end point 0..70 days away '
               '(+ 1y / 3y for month-based bumps, + hour / minute / second grids for intraday bumps) x every bump of the alphabet incl. the ones '
               'pointing away from t1; each call is compared with the list obtained by iterating a reference bump inside the closed interval')

D0 = datetime.date(2023, 12, 20)
D1 = datetime.date(2024, 3, 10)
DAY = datetime.timedelta(1)
ZERO = datetime.timedelta(0)
K = [1, -1, 2, -2, 3, -3, 5, -5]
NS7 = [n for k in range(1, 8) for n in (k, -k)]
COMPOUND = ['1m1d', '-1m-1d', '1w-1d', '1d12h', '-1d-12h', '2b1d', '-1d12h', '-1d1w', '-1w1d', '1d-36h', '1w0b', '0b1w']          # (a sign belongs to its own piece only)
ALT = ['+1d', '2D', '+3b', '-2B', '-1W', '+1w-1D', '+1m', '-1M', '1M1D']          # other spellings of bumps of the alphabet
ALT_LONG = ['+1m', '-1M', '1M1D', '+1Y', '-2Q']
TODS_DAY = [[0, 0, 0, 0], [9, 30, 0, 0], [9, 30, 0, 5]]            # the last one carries microseconds (rrule drops them)
TODS_INTRADAY = [[0, 0, 0, 0], [22, 30, 0, 0], [22, 30, 0, 7]]
CAP = 40
GUARD_S = 2.0
CAL_EVERY = 4            # Calendar.drange is compared on every 4th end point

_PART = re.compile(r'([+-]?[0-9]+)([a-z])')


# ------------------------------------------------------------------------------------------------ bumps

class Bump:
    """one bump of the alphabet: `arg` is what drange receives, `parts` drives the reference"""
    __slots__ = ('name', 'kind', 'arg', 'parts', 'sem', 'k', 'sign', 'month', 'eqkey')

    def __init__(self, name, kind, arg, parts, eqkey=None):
        self.name = name
        self.kind = kind                    # outcome class / signature: int td d w m q y b h n s tdh compound alt
        self.arg = arg
        self.parts = parts                  # [(unit, n)] in c09's unit names (+ 'tdh' = hours as a timedelta)
        self.sem = 'b' if len(parts) == 1 and parts[0][0] == 'b' else 'chain'
        self.k = parts[0][1] if len(parts) == 1 else None
        self.month = any(u in c09.MONTHS for u, _ in parts)
        self.eqkey = eqkey                  # bumps with equal eqkey must give identical outcomes (int n / timedelta(n) / 'nd')
        self.sign = None                    # filled per t0


def parse(s):
    low = s.lower()
    parts = [(u, int(n)) for n, u in _PART.findall(low)]
    if _PART.sub('', low) != '' or not parts:
        raise ValueError('harness: cannot parse tenor %r' % s)
    return parts


def ref_bump(t, parts):
    """the reference bump (c09's single-part reference, folded left to right)"""
    for unit, n in parts:
        if unit == 'tdh':
            t = t + datetime.timedelta(hours=n)
        elif unit == 'tdms':
            t = t + datetime.timedelta(milliseconds=n)
        else:
            t = c09.expected(t, unit, [n])[0][0]
            if t is None:
                raise AssertionError('harness: month-based part applied off midnight')
    return t


def _str_bump(s, kind=None, eqkey=None):
    parts = parse(s)
    if kind is None:
        kind = parts[0][0] if len(parts) == 1 else 'compound'
    return Bump(repr(s), kind, s, parts, eqkey)


def bumps_for(group, month_ok):
    bs = []
    if group == 'days':
        for n in NS7:
            bs.append(Bump('int:%d' % n, 'int', n, [('int', n)], eqkey=n))
            bs.append(Bump('timedelta(days=%d)' % n, 'td', datetime.timedelta(days=n), [('td', n)], eqkey=n))
            bs.append(_str_bump('%dd' % n, eqkey=n))
            if abs(n) in (1, 3):
                bs.append(Bump('np.int64(%d)' % n, 'int', np.int64(n), [('int', n)], eqkey=n))          # numpy integers are integers
                bs.append(Bump('np.int32(%d)' % n, 'int', np.int32(n), [('int', n)], eqkey=n))
        for u in 'wb':
            for k in K:
                bs.append(_str_bump('%d%s' % (k, u)))
        for u in 'mqy':
            for k in K:
                bs.append(_str_bump('%d%s' % (k, u)))
        for s in COMPOUND:
            bs.append(_str_bump(s))
        for s in ALT:
            bs.append(_str_bump(s, kind='alt'))
    elif group == 'long':
        for u in 'mqy':
            for k in K:
                bs.append(_str_bump('%d%s' % (k, u)))
        for s in ('1m1d', '-1m-1d', '1m0b', '0b1m', '-1m0b'):          # a ZERO business-day piece is not a no-op: it rolls a weekend / holiday forward
            bs.append(_str_bump(s))
        for n in (1499, 1500, -1500, 2000):          # a step of many days is a step like any other (an int that large is only read as a YEAR where a date is expected)
            bs.append(Bump('int:%d' % n, 'int', n, [('int', n)], eqkey=n))
            bs.append(Bump('timedelta(days=%d)' % n, 'td', datetime.timedelta(days=n), [('td', n)], eqkey=n))
            bs.append(_str_bump('%dd' % n, eqkey=n))
        for s in ALT_LONG:
            bs.append(_str_bump(s, kind='alt'))
    elif group == 'hours':
        for k in K:
            bs.append(_str_bump('%dh' % k))
    elif group == 'minutes':
        for k in K:
            bs.append(_str_bump('%dn' % k))
    elif group == 'seconds':
        for k in K:
            bs.append(_str_bump('%ds' % k))
    elif group == 'tdh':
        for h in (6, -6, 36, -36):
            bs.append(Bump('timedelta(hours=%d)' % h, 'tdh', datetime.timedelta(hours=h), [('tdh', h)]))
        for n in (1, -1, 2, -2):
            bs.append(Bump('timedelta(days=%d)' % n, 'td', datetime.timedelta(days=n), [('td', n)], eqkey=n))
            bs.append(_str_bump('%dd' % n, eqkey=n))
        for s in ('1d12h', '-1d-12h', '+12H', '-18h'):
            bs.append(_str_bump(s, kind='compound' if 'd' in s else 'alt' if s == '+12H' else None))
    elif group == 'millis':
        # timedelta bumps with a fractional number of seconds, over spans that are exact multiples of them
        for ms_ in (100, -100, 200, -200, 400, -400, 50, -50):
            bs.append(Bump('timedelta(milliseconds=%d)' % ms_, 'tdms', datetime.timedelta(milliseconds=ms_), [('tdms', ms_)]))
    else:
        raise ValueError(group)
    if not month_ok:
        bs = [b for b in bs if not b.month]
    return bs


def endpoints(group, M, t0, d):
    """[(label, t1)] of the group, nearest first; d = +1 (t1 after t0) or -1"""
    td = datetime.timedelta
    if group == 'days':
        return [('%dd' % m, t0 + DAY * (d * m)) for m in range(M + 1)]
    if group == 'long':
        res = []
        for y in (1, 3):
            e = ref_bump(t0, [('y', d * y)])
            for off in (-1, 0, 1):
                res.append(('%dy%+dd' % (y, off), e + DAY * off))
        return res
    if group == 'millis':
        return [('%dms' % (100 * m), t0 + td(milliseconds=100 * m) * d) for m in range(M + 1)] + [('%dms' % (100 * m + 30), t0 + td(milliseconds=100 * m + 30) * d) for m in range(0, M + 1, 3)]
    unit, half = {'hours': (td(hours=1), td(minutes=30)), 'tdh': (td(hours=1), td(minutes=30)),
                  'minutes': (td(minutes=1), td(seconds=30)), 'seconds': (td(seconds=1), td(microseconds=500000))}[group]
    res = []
    us3 = td(microseconds=3)
    for m in range(M + 1):
        res.append(('%d%s' % (m, group[0]), t0 + (unit * m) * d))
        res.append(('%d.5%s' % (m, group[0]), t0 + (unit * m + half) * d))
        if group == 'hours' and m:
            # an end point whose microsecond part differs from t0's: just short of / just past a point of the grid
            res.append(('%d%s-3us' % (m, group[0]), t0 + (unit * m) * d - us3))
            res.append(('%d%s+3us' % (m, group[0]), t0 + (unit * m) * d + us3))
    res.sort(key=lambda e: abs(e[1] - t0))
    return res


# ------------------------------------------------------------------------------------------------ running one call

class _Hang(BaseException):
    pass


class _Watch:
    """a private watchdog of GUARD_S seconds around every implementation call; between calls the engine's own per-case
    watchdog (if any) is re-armed with what is left of its time, so a slow case still ends as the engine's `timeout`"""

    def __init__(self):
        self.old = signal.getsignal(signal.SIGALRM)
        self.left = signal.getitimer(signal.ITIMER_REAL)[0]
        self.began = time.monotonic()
        self.inside = False
        signal.signal(signal.SIGALRM, self._fire)

    def _fire(self, signum, frame):
        if self.inside:
            self.inside = False
            raise _Hang()
        if callable(self.old):
            return self.old(signum, frame)
        raise _Hang()

    def _rearm(self):
        if self.left > 0:
            signal.setitimer(signal.ITIMER_REAL, max(0.05, self.left - (time.monotonic() - self.began)))
        else:
            signal.setitimer(signal.ITIMER_REAL, 0)

    def run(self, f):
        """-> ('ok', value) | ('ValueError', text) | ('hang', None) | (other exception name, text)"""
        self.inside = True
        signal.setitimer(signal.ITIMER_REAL, GUARD_S)
        try:
            try:
                return 'ok', f()
            finally:
                self.inside = False
                self._rearm()
        except _Hang:
            return 'hang', None
        except ValueError as e:
            return 'ValueError', str(e)
        except Exception as e:
            return type(e).__name__, str(e)

    def close(self):
        self.inside = False
        signal.signal(signal.SIGALRM, self.old if self.old is not None else signal.SIG_DFL)
        self._rearm()


def _fmt(x):
    if not isinstance(x, list):
        return repr(x)[:200]
    def one(v):
        return v.isoformat(' ') if isinstance(v, datetime.datetime) else repr(v)
    if len(x) <= 8:
        return '[' + ', '.join(map(one, x)) + ']'
    return '[%s, ..., %s] (%d elements)' % (', '.join(map(one, x[:4])), ', '.join(map(one, x[-2:])), len(x))


def _monotone(x, sign):
    try:
        return all((b > a) if sign > 0 else (b < a) for a, b in zip(x, x[1:]))
    except Exception:
        return False


class _Rec:
    def __init__(self, out):
        self.out = out
        self.n = 0

    def __call__(self, kind, msg, **sig):
        self.n += 1
        if self.n <= CAP:
            self.out.viol(kind, msg, **sig)


# ------------------------------------------------------------------------------------------------ the sweep

def sweep(out, rec, state, drange, cal, t0, d, group, ends, bumps):
    """every end point x every bump; ends = [(label, t1)] with t1 on the d side of t0"""
    far = max(abs(t1 - t0) for _, t1 in ends)
    wd0 = t0.weekday()
    # ---- references, once per bump: the whole chain up to the farthest end point, prefixes are taken per end point
    ref = {}
    wl = wkeys = None
    for b in bumps:
        if b.sem == 'b':
            b.sign = 1 if b.k > 0 else -1
        else:
            nxt = ref_bump(t0, b.parts)
            if nxt == t0:
                raise AssertionError('harness: zero bump %s in the alphabet' % b.name)
            b.sign = 1 if nxt > t0 else -1
        if b.sign != d:
            continue
        if b.sem == 'b':
            if wl is None:
                wl, cur = [], t0
                while abs(cur - t0) <= far:
                    if cur.weekday() < 5:
                        wl.append(cur)
                    cur = cur + DAY * d
                wkeys = [abs(x - t0) for x in wl]
            continue
        chain, cur = [t0], t0
        while True:
            nxt = ref_bump(cur, b.parts)
            if not ((nxt > cur) if d > 0 else (nxt < cur)):
                raise AssertionError('harness: reference chain of %s is not strictly monotone at %s' % (b.name, cur))
            if abs(nxt - t0) > far:
                break
            chain.append(nxt)
            cur = nxt
        ref[b.name] = (chain, [abs(x - t0) for x in chain])

    for ei, (label, t1) in enumerate(ends):
        dist = abs(t1 - t0)
        lo, hi = (t0, t1) if t0 <= t1 else (t1, t0)
        crosses = (lo.year, lo.month) != (hi.year, hi.month) or lo.weekday() + (hi.date() - lo.date()).days >= 5
        outcomes = {}
        for b in bumps:
            out.sub()
            key = '%s|%s|%s' % (group, label, b.name)
            # ---- expectation
            alts = None
            if dist == ZERO:
                dcls, exp = 'single', [t0]
            elif b.sign != d:
                dcls, exp = 'wrong-direction', None
            else:
                dcls = 'forward' if d > 0 else 'backward'
                if b.sem == 'b':
                    W = wl[:bisect.bisect_right(wkeys, dist)]
                    k = abs(b.k)
                    exp = W[::k]
                    if k > 1 and wd0 > 4:
                        alts = [W[o::k] for o in range(k)]
                else:
                    chain, keys = ref[b.name]
                    exp = chain[:bisect.bisect_right(keys, dist)]
            out.cls('%s|%s' % (b.kind, dcls))
            if b.sign < 0 or crosses or (exp is not None and len(exp) >= 3):
                out.nontrivial(key)
            sig = dict(bump=b.kind, dir=dcls, sign=b.sign, step=bool(b.k is not None and abs(b.k) > 1))
            calls = [('drange', lambda: drange(t0, t1, b.arg))]
            # (Calendar.drange takes every string ENDING in 'b' for a business-day count of its own calendar: outside what is observed here, like 'kb' itself)
            if cal is not None and b.sem != 'b' and not (isinstance(b.arg, str) and b.arg[-1:] in 'bB') and ei % CAL_EVERY == 0:
                calls.append(('Calendar.drange', lambda: cal.drange(t0, t1, b.arg)))
            if group == 'days' and label.endswith('d') and ei % 3 == 1:
                # the end point spelt RELATIVE to the explicit start: an int number of days, a timedelta or an 'nd' string
                nd_ = (t1 - t0).days
                rel = [nd_, datetime.timedelta(days=nd_), '%dd' % nd_][(ei // 3) % 3]
                calls.append(('drange-relative-end', lambda rel=rel: drange(t0, rel, b.arg)))
            for via, f in calls:
                if state['hangs'] >= 2:
                    out.cls('aborted-after-two-calls-without-return')
                    return
                st, r = state['watch'].run(f)
                out.call()
                if via == 'drange':
                    outcomes[b.name] = (st, r)
                    s = sig
                else:
                    s = dict(sig, via=via)
                what = '%s(%s, %s, %s)' % (via, t0.isoformat(' '), t1.isoformat(' '), b.name)
                if st == 'hang':
                    state['hangs'] += 1
                    rec('no-return', '%s did not return within %ss; expected %s' % (
                        what, GUARD_S, 'ValueError' if exp is None else _fmt(exp)), **s)
                elif exp is None:
                    if st == 'ok':
                        rec('wrong-direction-not-raised', '%s: the bump points away from t1, expected ValueError, observed the list %s' % (what, _fmt(r)),
                            empty=isinstance(r, list) and not r, **s)
                    elif st != 'ValueError':
                        rec('wrong-direction-other-exception', '%s: the bump points away from t1, expected ValueError, observed %s: %s' % (what, st, r), **s)
                elif st != 'ok':
                    rec('raised', '%s raised %s: %s; expected %s' % (what, st, r, _fmt(exp)), **s)
                elif not isinstance(r, list):
                    rec('not-a-list', '%s returned a %s; expected the list %s' % (what, type(r).__name__, _fmt(exp)), **s)
                elif r != exp and not (alts is not None and r in alts):
                    if dcls == 'single':
                        kind = 'single-point-wrong'
                    elif not r:
                        kind = 'empty-list'
                    elif not _monotone(r, d):
                        kind = 'not-strictly-monotone'
                    elif b.sem == 'b' and any(x.weekday() > 4 for x in r):
                        kind = 'b-lists-weekend-day'
                    elif r[0] != exp[0] if exp else True:
                        kind = 'wrong-start'
                    elif len(r) != len(exp):
                        kind = 'wrong-end'
                    else:
                        kind = 'wrong-elements'
                    rec(kind, '%s: expected %s observed %s' % (what, _fmt(exp), _fmt(r)), **s)
        # ---- the returned list is the caller's: emptying it must not show in the next call over the same end points
        if group == 'days' and ei in (2, 5):
            for b in bumps:
                if b.name in ('int:1', 'int:-1', 'int:2', "'1b'", "'-1b'", "'1d'", 'timedelta(days=1)') and b.name in outcomes and outcomes[b.name][0] == 'ok' and isinstance(outcomes[b.name][1], list):
                    out.sub()
                    first = outcomes[b.name][1]
                    keep = list(first)
                    del first[:]                         # the caller empties its list in place
                    st2, r2 = state['watch'].run(lambda: drange(t0, t1, b.arg))
                    out.call()
                    outcomes[b.name] = (outcomes[b.name][0], keep)          # the spelling comparison below uses what the first call returned
                    if st2 != 'ok' or r2 != keep or r2 is first:
                        rec('result-shared-between-calls', 'drange(%s, %s, %s): after the caller emptied the first result, a second call returned %s; expected %s' % (
                            t0.isoformat(' '), t1.isoformat(' '), b.name, _fmt(r2) if st2 == 'ok' else st2, _fmt(keep)), bump=b.kind)
        # ---- int n == timedelta(days=n) == 'nd'
        groups = {}
        for b in bumps:
            if b.eqkey is not None and b.name in outcomes:
                groups.setdefault(b.eqkey, []).append(b)
        for n, bs in groups.items():
            if len(bs) < 2:
                continue
            out.sub()
            first = outcomes[bs[0].name]
            for b in bs[1:]:
                o = outcomes[b.name]
                same = o[0] == first[0] and (o[0] != 'ok' or o[1] == first[1])
                if not same:
                    rec('spellings-differ', 'drange(%s, %s, .): %s gives %s but %s gives %s' % (
                        t0.isoformat(' '), t1.isoformat(' '), bs[0].name, _fmt(first[1]) if first[0] == 'ok' else first[0],
                        b.name, _fmt(o[1]) if o[0] == 'ok' else o[0]), a=bs[0].kind, b=b.kind, sign=1 if n > 0 else -1,
                        dir='single' if dist == ZERO else 'same' if (n > 0) == (d > 0) else 'wrong-direction')


def check(case):
    out = Out()
    rec = _Rec(out)
    state = dict(hangs=0, watch=_Watch())
    try:
        _check(case, out, rec, state)
    finally:
        state['watch'].close()
    return out


def _check(case, out, rec, state):
    from pyg_base import drange, Calendar
    day = datetime.date.fromisoformat(case['day'])
    h, mi, s, us = case['tod']
    t0 = datetime.datetime(day.year, day.month, day.day, h, mi, s, us)
    d = case['dir']
    midnight = (h, mi, s, us) == (0, 0, 0, 0)
    month_ok = midnight and day.day <= 28
    cal = Calendar('c10-no-holidays')          # the constructor does not touch the `calendars` registry
    # the module-level drange lists WEEKDAYS for business-day bumps whatever calendars the program has registered: on odd start days the unnamed default calendar
    # is registered with holidays inside the window and a Friday-Saturday weekend, on even days it is removed again
    from pyg_base import calendar
    import pyg_base._drange as _dr
    if day.toordinal() % 2:
        calendar(holidays=[D0 + DAY * k for k in range(0, (D1 - D0).days, 3)], weekend=(4, 5))
    else:
        _dr.calendars.pop(None, None)
    for group, M in case['groups']:
        if (group == 'long' and not month_ok) or state['hangs'] >= 2:
            continue
        bumps = bumps_for(group, month_ok)
        ends = endpoints(group, M, t0, d)
        sweep(out, rec, state, drange, cal, t0, d, group, ends, bumps)


# ------------------------------------------------------------------------------------------------ suites

def _days():
    n = (D1 - D0).days
    return [(D0 + DAY * i).isoformat() for i in range(n + 1)]


def gen(tods, groups):
    for day in _days():
        for tod in tods:
            for d in (1, -1):
                yield dict(day=day, tod=tod, dir=d, groups=groups)


def suites(tier, seed):
    quick = tier == 'quick'
    span = 21 if quick else 70
    mh, mtd, mn, ms = (12, 48, 12, 12) if quick else (40, 120, 40, 40)
    g_days = [['days', span], ['long', 0]]
    g_intra = [['hours', mh], ['tdh', mtd], ['minutes', mn], ['seconds', ms], ['millis', 12]]
    nd = len(_days())
    nb_days = len(bumps_for('days', True))
    return [
        Suite('days', lambda: gen(TODS_DAY, g_days), check,
              rule='every t0 in %s..%s at 00:00 and 09:30 x t1 = t0 +- 0..%d days x %d bumps: ints +-1..7, timedelta(days=+-1..7), '
                   "'nd' for the same n, 'kw','kb','km','kq','ky' for k in +-{1,2,3,5}, compound %s, other spellings %s; from days <= 28 at midnight also "
                   't1 = t0 +- {1y,3y} (-1d, exact, +1d) x m/q/y bumps. Both signs of every bump against both directions (wrong direction -> ValueError); '
                   "int n == timedelta(n) == 'nd'; Calendar.drange == drange on every %dth end point. One case = (t0, direction); non-trivial = "
                   '(end point, bump) pairs with a negative bump, a list of >= 3 elements or an interval containing a weekend day / month end'
                   % (D0, D1, span, nb_days, COMPOUND, ALT, CAL_EVERY),
              bounds=dict(start_days=nd, tods=len(TODS_DAY), max_span_days=span, bumps=nb_days, long_spans=['1y', '3y'])),
        Suite('intraday', lambda: gen(TODS_INTRADAY, g_intra), check,
              rule="every t0 in %s..%s at 00:00 and 22:30 x both directions x intraday end points: t0 +- (m or m+1/2) hours, m <= %d, x 'kh'; "
                   "+- (m or m+1/2) hours, m <= %d, x timedelta(hours=+-6/+-36), timedelta(days=+-1/+-2), '+-1d','+-2d', '1d12h', '-1d-12h', '+12H', '-18h'; "
                   "+- (m or m+1/2) minutes, m <= %d, x 'kn'; +- (m or m+1/2) seconds, m <= %d, x 'ks'; k in +-{1,2,3,5}; same oracle"
                   % (D0, D1, mh, mtd, mn, ms),
              bounds=dict(start_days=nd, tods=len(TODS_INTRADAY), max_hours=mh, max_hours_timedelta=mtd, max_minutes=mn, max_seconds=ms)),
    ]
