"""
C08 -- timeseries operators equal the pointwise operation on aligned operands (DESIGN.md section 4, C08).

E2: every pair (and triple / quadruple for the list forms) of Series / 2-column frames over every index subset of a short
timeline with values from {NaN, 0, 1, 2, -1.5}, scalars on either side, both index policies and both column policies,
against pointwise float64 arithmetic on the alignment model of mc/tsmodel.py.
"""
import itertools

import numpy as np
import pandas as pd

from mc.engine import Suite, Out
from mc import tsmodel as tm

PROPERTY = 'C08'
ASSUMPTIONS = [
    'operands: Series with Series / scalar, 2-column frames with frames / scalar / a Series (suite frame_series: the Series is an operand of every column; no column policy involved)',
    'float inputs only; result dtype, Series name and column order are not checked; a fill method (ffill / the constant 0) is only exercised for div_ and add_ on pairs of Series '
    '(C03 covers filling itself): the operands are filled on the common index first, then the pointwise operation applies',
    "column policy 'oj' (missing column = neutral element) is claimed for add_/sub_/mul_/div_ only; frames with disjoint column sets under 'ij' are excluded",
    'pointwise reference = numpy float64 scalar semantics (NaN**0 == 1, comparisons with NaN False, minimum/maximum propagate NaN); div_: divisor 0 -> NaN',
]

VALSEQ = [1.0, 0.0, None, 2.0, -1.5]
SCALARS = [0, 2, 2.5, None]          # None = NaN scalar

LONGP = {'ij': 'inner', 'oj': 'outer'}
BIN = ['add', 'sub', 'mul', 'div', 'pow', 'gt', 'ge', 'lt', 'le', 'min', 'max']


def opfun(name):
    import pyg_base as P
    return getattr(P, name + '_')


def npop(op, x, y):
    a = np.float64(np.nan if x is None else x)
    b = np.float64(np.nan if y is None else y)
    with np.errstate(all='ignore'):
        if op == 'add':
            r = a + b
        elif op == 'sub':
            r = a - b
        elif op == 'mul':
            r = a * b
        elif op == 'div':
            r = np.float64(np.nan) if b == 0 else a / b
        elif op == 'pow':
            r = a ** b
        elif op == 'gt':
            return bool(a > b)
        elif op == 'ge':
            return bool(a >= b)
        elif op == 'lt':
            return bool(a < b)
        elif op == 'le':
            return bool(a <= b)
        elif op == 'min':
            r = np.minimum(a, b)
        elif op == 'max':
            r = np.maximum(a, b)
        else:
            raise ValueError(op)
    return None if r != r else float(r)


def operand(desc, k):
    """desc = [days, rot]: value at day d is VALSEQ[(d + rot) % 5]"""
    days, rot = desc
    return {d: VALSEQ[(d + rot) % 5] for d in days}


def variants(T, rots):
    subs = [[i for i in range(T) if b[i]] for b in itertools.product([0, 1], repeat=T)]
    return [[s, r] for s in subs for r in rots]


def fold(op, cols_of_values):
    r = cols_of_values[0]
    for v in cols_of_values[1:]:
        r = npop(op, r, v)
    return r


def expect_series(op, models, how):
    days = tm.common_days([set(m) for m in models], how)
    al = [tm.align(m, days) for m in models]
    return {d: fold(op, [a[d] for a in al]) for d in days}


def result_problem(res, expect, what):
    if isinstance(res, pd.DataFrame) and res.shape[1] == 1:
        res = res.iloc[:, 0]
    if not isinstance(res, pd.Series):
        return '%s: expected a Series, got %r' % (what, res)
    want_idx = [tm.day(d) for d in sorted(expect)]
    if list(res.index) != want_idx:
        return '%s: index %s, expected days %s' % (what, [tm.daynum(t) for t in res.index], sorted(expect))
    for t, d in zip(want_idx, sorted(expect)):
        g, e = res[t], expect[d]
        if isinstance(e, bool):
            if bool(g) != e:
                return '%s: value at day %d is %r, expected %r' % (what, d, g, e)
        elif not tm.cell_ok(g, e):
            return '%s: value at day %d is %r, expected %r' % (what, d, g, e)
    return None


def _same(r1, r2):
    try:
        if isinstance(r1, (pd.Series, pd.DataFrame)):
            return type(r1) is type(r2) and r1.shape == r2.shape and list(r1.index) == list(r2.index) and \
                np.array_equal(np.asarray(r1, dtype=float), np.asarray(r2, dtype=float), equal_nan=True)
        return tm.cell_ok(r1, None if r2 != r2 else r2) or r1 == r2
    except Exception:
        return False


# ------------------------------------------------------------------------------------------------ series x series

def check_pair(case):
    out = Out()
    ma, mb = operand(case['a'], 0), operand(case['b'], 1)
    desc = 'a=%s b=%s' % (ma, mb)
    for how in ('ij', 'oj'):
        for op in BIN:
            out.sub()
            a, b = tm.build_series(ma), tm.build_series(mb)
            sa, sb = a.copy(), b.copy()
            sig = dict(op=op, how=how)
            try:
                res = opfun(op)(a, b, join=how)
                out.call()
            except Exception as e:
                out.viol('raised', '%s_(%s, join=%s) raised %s: %s' % (op, desc, how, type(e).__name__, e), exc=type(e).__name__, **sig)
                continue
            exp = expect_series(op, [ma, mb], how)
            p = result_problem(res, exp, '%s_(%s, join=%s)' % (op, desc, how))
            if p:
                out.viol('wrong-value', p, **sig)
            if op == 'div' and isinstance(res, pd.Series) and np.isinf(np.asarray(res, dtype=float)).any():
                out.viol('div-inf', 'div_(%s, join=%s) contains inf: %s' % (desc, how, list(res.values)), **sig)
            if not (a.equals(sa) and b.equals(sb)):
                out.viol('operand-mutated', '%s_(%s) changed an operand' % (op, desc), **sig)
            if op == 'div':
                # tiny but non-zero denominators divide like any other number (only an exact zero gives NaN)
                out.sub()
                try:
                    rt = opfun('div')(tm.build_series(ma), tm.build_series(mb) * 1e-9, join=how)
                    out.call()
                    days_t = tm.common_days([set(ma), set(mb)], how)
                    xa, xb = tm.align(ma, days_t), tm.align(mb, days_t)
                    expt = {d: (None if (xa[d] is None or xb[d] is None or xb[d] == 0) else xa[d] / (xb[d] * 1e-9)) for d in days_t}
                    pt = result_problem(rt, expt, 'div_(%s with b scaled by 1e-9, join=%s)' % (desc, how))
                    if pt:
                        out.viol('wrong-value', pt, tiny=True, **sig)
                except Exception as e:
                    out.viol('raised', 'div_(%s with b scaled by 1e-9, join=%s) raised %s: %s' % (desc, how, type(e).__name__, e), exc=type(e).__name__, tiny=True, **sig)
            if op == 'div' and ma:
                # an infinite numerator over a non-zero denominator is a legitimate infinite quotient (only a ZERO denominator gives NaN)
                out.sub()
                try:
                    d_inf = sorted(ma)[0]
                    ma_inf = dict(ma)
                    ma_inf[d_inf] = float('inf')
                    ri = opfun('div')(tm.build_series(ma_inf), tm.build_series(mb), join=how)
                    out.call()
                    days_i = tm.common_days([set(ma), set(mb)], how)
                    xa, xb = tm.align(ma_inf, days_i), tm.align(mb, days_i)
                    expi = {d: (None if (xa[d] is None or xb[d] is None or xb[d] == 0) else xa[d] / xb[d]) for d in days_i}
                    pi_ = result_problem(ri, expi, 'div_(%s with a[%d] = inf, join=%s)' % (desc, d_inf, how))
                    if pi_:
                        out.viol('wrong-value', pi_, inf_numerator=True, **sig)
                except Exception as e:
                    out.viol('raised', 'div_(%s with an infinite numerator, join=%s) raised %s: %s' % (desc, how, type(e).__name__, e), exc=type(e).__name__, inf_numerator=True, **sig)
            if op in ('add', 'max') and ma and mb:
                # the SAME operand objects again after the index of one of them was replaced in place (same length): the second result is for the operands as they are now
                out.sub()
                try:
                    a2, b2 = tm.build_series(ma), tm.build_series(mb)
                    opfun(op)(a2, b2, join=how)
                    a2.index = a2.index + pd.Timedelta(days=1)
                    ma2 = {d + 1: v for d, v in ma.items()}
                    r2 = opfun(op)(a2, b2, join=how)
                    out.call(2)
                    p2_ = result_problem(r2, expect_series(op, [ma2, mb], how), '%s_(a, b, join=%s) called again on the same objects after a.index was shifted by a day in place (%s)' % (op, how, desc))
                    if p2_:
                        out.viol('wrong-value', p2_, after_index_edit=True, **sig)
                except Exception as e:
                    out.viol('raised', '%s_ twice with an in-place index edit in between (%s, join=%s) raised %s: %s' % (op, desc, how, type(e).__name__, e), exc=type(e).__name__,
                             after_index_edit=True, **sig)
            if op in ('div', 'add'):
                # a fill method on the alignment (C03's as-of fill / a constant) comes BEFORE the operation: zeros the fill creates or carries forward
                # are divisors like any other (NaN, never inf), zeros in the data are not holes to be filled
                for method in ('ffill', 0):
                    out.sub()
                    try:
                        rm = opfun(op)(tm.build_series(ma), tm.build_series(mb), join=how, method=method)
                        out.call()
                    except Exception as e:
                        out.viol('raised', '%s_(%s, join=%s, method=%r) raised %s: %s' % (op, desc, how, method, type(e).__name__, e), exc=type(e).__name__, method=str(method), **sig)
                        continue
                    days = tm.common_days([set(ma), set(mb)], how)
                    if method == 0:
                        al = [{d: (0.0 if m.get(d) is None else m[d]) for d in days} for m in (ma, mb)]
                    else:
                        al = [tm.align(m, days, 'ffill') for m in (ma, mb)]
                    expm = {d: npop(op, al[0][d], al[1][d]) for d in days}
                    pm = result_problem(rm, expm, '%s_(%s, join=%s, method=%r)' % (op, desc, how, method))
                    if pm:
                        out.viol('wrong-value', pm, method=str(method), **sig)
            if op in ('add', 'sub', 'max'):
                # the same operands on indexes built by pd.date_range (they carry a freq; two regular grids may be shifted against each other)
                try:
                    rf = opfun(op)(tm.build_series_freq(ma), tm.build_series_freq(mb), join=how)
                    out.call()
                    p2 = result_problem(rf, exp, '%s_(%s, join=%s) on date_range indexes' % (op, desc, how))
                    if p2:
                        out.viol('wrong-value', p2, freq=True, **sig)
                except Exception as e:
                    out.viol('raised', '%s_(%s, join=%s) on date_range indexes raised %s: %s' % (op, desc, how, type(e).__name__, e), exc=type(e).__name__, freq=True, **sig)
            if op in ('add', 'lt'):
                # the same instants stored at another resolution (nanoseconds / seconds against the default microseconds) are the same timestamps
                for unit in ('ns', 's'):
                    out.sub()
                    try:
                        b2 = tm.build_series(mb)
                        b2.index = b2.index.as_unit(unit)
                        ru = opfun(op)(tm.build_series(ma), b2, join=how)
                        out.call()
                        pu = result_problem(ru, exp, '%s_(%s, join=%s) with b indexed in datetime64[%s]' % (op, desc, how, unit))
                        if pu:
                            out.viol('wrong-value', pu, unit=unit, **sig)
                    except Exception as e:
                        out.viol('raised', '%s_(%s, join=%s) with b indexed in datetime64[%s] raised %s: %s' % (op, desc, how, unit, type(e).__name__, e), exc=type(e).__name__, unit=unit, **sig)
            if op in ('add', 'mul', 'min', 'max'):
                try:
                    rev = opfun(op)(tm.build_series(mb), tm.build_series(ma), join=how)
                    out.call()
                    if not _same(res, rev):
                        out.viol('not-commutative', '%s_(a,b) != %s_(b,a) for %s join=%s: %s vs %s' % (op, op, desc, how, list(res.values), list(rev.values)), **sig)
                    # list spelling
                    lst = opfun(op)([tm.build_series(ma), tm.build_series(mb)], join=how)
                    out.call()
                    if not _same(res, lst):
                        out.viol('list-form-differs', '%s_([a,b]) != %s_(a,b) for %s join=%s' % (op, op, desc, how), **sig)
                except Exception as e:
                    out.viol('raised', '%s_ reversed/list form (%s, join=%s) raised %s: %s' % (op, desc, how, type(e).__name__, e), exc=type(e).__name__, form='rev', **sig)
    da, db = set(ma), set(mb)
    if da != db and (da & db):
        out.nontrivial()
    out.cls('pair-%s' % ('same' if da == db else 'disjoint' if not (da & db) else 'overlap'))
    return out


# ------------------------------------------------------------------------------------------------ a 2-column frame with a Series

def check_frame_series(case):
    """op_(frame, series) and op_(series, frame): the Series is an operand of EVERY column (pointwise on the common index)"""
    out = Out()
    fa = frame_model(case['a'], 0, ['a', 'b'])
    ms = operand(case['b'], 1)
    desc = 'A=%s s=%s' % (fa, ms)
    for how in ('ij', 'oj'):
        days = tm.common_days([set(case['a'][0]), set(ms)], how)
        sa = tm.align(ms, days)
        for op in BIN:
            for order in ('frame-first', 'series-first'):
                out.sub()
                sig = dict(op=op, how=how, order=order, mixed='frame+series')
                A, S_ = tm.build_frame(fa), tm.build_series(ms)
                snapA, snapS = A.copy(), S_.copy()
                what = '%s_(%s, join=%s)' % (op, ('A, s' if order == 'frame-first' else 's, A') + ' with ' + desc, how)
                try:
                    res = opfun(op)(A, S_, join=how) if order == 'frame-first' else opfun(op)(S_, A, join=how)
                    out.call()
                except Exception as e:
                    out.viol('raised', '%s raised %s: %s' % (what, type(e).__name__, e), exc=type(e).__name__, **sig)
                    continue
                exp = {}
                for c in ('a', 'b'):
                    xa = tm.align(fa[c], days)
                    exp[c] = {d: (npop(op, xa[d], sa[d]) if order == 'frame-first' else npop(op, sa[d], xa[d])) for d in days}
                p = _bool_frame_problem(res, exp, what)
                if p:
                    out.viol('wrong-value', p, **sig)
                if not (A.equals(snapA) and S_.equals(snapS)):
                    out.viol('operand-mutated', '%s changed an operand' % what, **sig)
    if set(case['a'][0]) != set(ms) and (set(case['a'][0]) & set(ms)):
        out.nontrivial()
    out.cls('frame-series-%s' % ('same' if set(case['a'][0]) == set(ms) else 'diff'))
    return out


# ------------------------------------------------------------------------------------------------ series / frame x scalar

def check_scalar(case):
    out = Out()
    ma = operand(case['a'], 0)
    frame = case.get('frame')
    for op in BIN:
        if frame and op in ('min', 'max'):
            continue
        for s in SCALARS:
            sv = np.nan if s is None else s
            for side in ('right', 'left'):
                out.sub()
                sig = dict(op=op, scalar=str(s), side=side, frame=bool(frame))
                if frame:
                    mf = {'a': ma, 'b': {d: VALSEQ[(d + 3) % 5] for d in ma}}
                    x = tm.build_frame(mf)
                else:
                    x = tm.build_series(ma)
                try:
                    res = opfun(op)(x, sv) if side == 'right' else opfun(op)(sv, x)
                    out.call()
                except Exception as e:
                    out.viol('raised', '%s_(%s, scalar %r on the %s) raised %s: %s' % (op, ma, s, side, type(e).__name__, e), exc=type(e).__name__, **sig)
                    continue
                what = '%s_(%s, scalar %r on the %s)' % (op, ma, s, side)
                if frame:
                    exp = {c: {d: (npop(op, m[d], s) if side == 'right' else npop(op, s, m[d])) for d in m} for c, m in mf.items()}
                    p = tm.frame_problem(res, exp, ['a', 'b'], what) if not isinstance(list(exp['a'].values() or [0])[0], bool) else _bool_frame_problem(res, exp, what)
                else:
                    exp = {d: (npop(op, ma[d], s) if side == 'right' else npop(op, s, ma[d])) for d in ma}
                    p = result_problem(res, exp, what)
                if p:
                    out.viol('wrong-value', p, **sig)
                if op == 'div':
                    try:
                        if np.isinf(np.asarray(res, dtype=float)).any():
                            out.viol('div-inf', '%s contains inf' % what, **sig)
                    except Exception:
                        pass
    # scalar with scalar
    for op in ('add', 'sub', 'mul', 'div'):
        out.sub()
        try:
            r = opfun(op)(3, 2)
            out.call()
            if not tm.cell_ok(r, npop(op, 3, 2)):
                out.viol('wrong-value', '%s_(3, 2) = %r' % (op, r), op=op, scalars=True)
        except Exception as e:
            out.viol('raised', '%s_(3, 2) raised %s: %s' % (op, type(e).__name__, e), op=op, scalars=True)
    if ma:
        out.nontrivial()
    out.cls('scalar-%s' % ('frame' if frame else 'series'))
    return out


def _bool_frame_problem(res, exp, what):
    if not isinstance(res, pd.DataFrame) or sorted(res.columns) != sorted(exp):
        return '%s: expected a frame with columns %s, got %r' % (what, sorted(exp), res)
    for c in exp:
        p = result_problem(res[c], exp[c], '%s[%s]' % (what, c))
        if p:
            return p
    return None


# ------------------------------------------------------------------------------------------------ frames x frames

COLSETS = [['a', 'b'], ['b', 'c'], ['a', 'b'], ['b', 'a']]          # the last: the same labels stored in the other order
NEUTRAL = dict(add=0.0, sub=0.0, mul=1.0, div=1.0)


def frame_model(desc, k, cols):
    days, rot = desc
    return {c: {d: VALSEQ[(d + rot + 2 * ci) % 5] for d in days} for ci, c in enumerate(cols)}


def check_frames(case):
    out = Out()
    fa = frame_model(case['a'], 0, COLSETS[0])
    for second in (1, 2, 3):
        fb = frame_model(case['b'], 1, COLSETS[second])
        desc = 'A=%s B=%s' % (fa, fb)
        for how in ('ij', 'oj'):
            days = tm.common_days([set(case['a'][0]), set(case['b'][0])], how)
            for op in BIN:
                for colpol in ('ij', 'oj'):
                    if colpol == 'oj' and op not in NEUTRAL:
                        continue
                    if op in ('min', 'max') and second == 1:
                        continue
                    out.sub()
                    sig = dict(op=op, how=how, columns=colpol, samecols=(second == 2), reordered=(second == 3))
                    A, B = tm.build_frame(fa), tm.build_frame(fb)
                    try:
                        res = opfun(op)(A, B, join=how, columns=colpol)
                        out.call()
                    except Exception as e:
                        out.viol('raised', '%s_(%s, join=%s, columns=%s) raised %s: %s' % (op, desc, how, colpol, type(e).__name__, e), exc=type(e).__name__, **sig)
                        continue
                    ca, cb = set(fa), set(fb)
                    cols = sorted(ca & cb) if colpol == 'ij' else sorted(ca | cb)
                    exp = {}
                    for c in cols:
                        xa = tm.align(fa[c], days) if c in fa else {d: NEUTRAL[op] for d in days}
                        xb = tm.align(fb[c], days) if c in fb else {d: NEUTRAL[op] for d in days}
                        exp[c] = {d: npop(op, xa[d], xb[d]) for d in days}
                    what = '%s_(%s, join=%s, columns=%s)' % (op, desc, how, colpol)
                    p = _bool_frame_problem(res, exp, what) if len(cols) > 1 else result_problem(res, exp[cols[0]], what)
                    if p:
                        out.viol('wrong-value', p, **sig)
                    if op == 'div':
                        try:
                            if np.isinf(np.asarray(res, dtype=float)).any():
                                out.viol('div-inf', '%s contains inf' % what, **sig)
                        except Exception:
                            pass
                    if op in ('add', 'div'):
                        # the policies in their other accepted spellings (the long names presync's own documentation uses, upper case)
                        for js, cs in ((LONGP[how], LONGP[colpol]), (how.upper(), colpol.upper())):
                            out.sub()
                            what2 = '%s_(%s, join=%r, columns=%r)' % (op, desc, js, cs)
                            try:
                                r2 = opfun(op)(tm.build_frame(fa), tm.build_frame(fb), join=js, columns=cs)
                                out.call()
                            except Exception as e:
                                out.viol('raised', '%s raised %s: %s' % (what2, type(e).__name__, e), exc=type(e).__name__, spelling=cs, **sig)
                                continue
                            p2 = _bool_frame_problem(r2, exp, what2) if len(cols) > 1 else result_problem(r2, exp[cols[0]], what2)
                            if p2:
                                out.viol('wrong-value', p2, spelling=cs, **sig)
    # ---- three frames through the list forms. columns='oj': column sets {a,b}, {b,c}, {a,c} (a missing column is the neutral element
    #      at every step); columns='ij': all three over {a,b} (so that the running result keeps two columns)
    third_desc = [case['a'][0], (case['a'][1] + 1) % 5]
    for colpol, sets in (('oj', (['a', 'b'], ['b', 'c'], ['a', 'c'])), ('ij', (['a', 'b'], ['a', 'b'], ['a', 'b']))):
        F = [frame_model(case['a'], 0, sets[0]), frame_model(case['b'], 1, sets[1]), frame_model(third_desc, 2, sets[2])]
        fdesc = 'A=%s B=%s C=%s' % tuple(F)
        allcols = sorted(set(sets[0]) | set(sets[1]) | set(sets[2]))
        for how in ('ij', 'oj'):
            days = tm.common_days([set(case['a'][0]), set(case['b'][0]), set(third_desc[0])], how)
            forms = [('add', 'add_([A,B,C])', lambda X: opfun('add')(X, join=how, columns=colpol), 'fold'),
                     ('mul', 'mul_([A,B,C])', lambda X: opfun('mul')(X, join=how, columns=colpol), 'fold'),
                     ('sub', 'sub_(A,[B,C])', lambda X: opfun('sub')(X[0], X[1:], join=how, columns=colpol), 'right'),
                     ('div', 'div_(A,[B,C])', lambda X: opfun('div')(X[0], X[1:], join=how, columns=colpol), 'right'),
                     ('sub', 'sub_([A,B],C)', lambda X: opfun('sub')(X[:2], X[2], join=how, columns=colpol), 'left'),
                     ('div', 'div_([A,B],C)', lambda X: opfun('div')(X[:2], X[2], join=how, columns=colpol), 'left')]
            if colpol == 'oj':
                # scalars INSIDE the list: [A, 2, B, 3] reduces left to right, so a column that only B brings is scaled by 3, not by 2 * 3
                for op in ('mul', 'add'):
                    out.sub()
                    sigx = dict(op=op, how=how, columns=colpol, form='%s_([A,2,B,3])' % op)
                    try:
                        resx = opfun(op)([tm.build_frame(F[0]), 2, tm.build_frame(F[1]), 3], join=how, columns=colpol)
                        out.call()
                        days2 = tm.common_days([set(case['a'][0]), set(case['b'][0])], how)
                        cols2 = sorted(set(sets[0]) | set(sets[1]))
                        expx = {}
                        for c in cols2:
                            xa = tm.align(F[0][c], days2) if c in F[0] else None
                            xb = tm.align(F[1][c], days2) if c in F[1] else None
                            neu = NEUTRAL[op]
                            # left to right: a column the running result does not have yet is the neutral element AT THE STEP where a frame brings it
                            # (the scalars met before that step never touched it)
                            if xa is not None:
                                expx[c] = {d: npop(op, npop(op, npop(op, xa[d], 2.0), (xb[d] if xb else neu)), 3.0) for d in days2}
                            else:
                                expx[c] = {d: npop(op, npop(op, neu, xb[d]), 3.0) for d in days2}
                        px = _bool_frame_problem(resx, expx, '%s_([A, 2, B, 3]) (A=%s B=%s, join=%s, columns=oj)' % (op, F[0], F[1], how))
                        if px:
                            out.viol('wrong-value', px, **sigx)
                    except Exception as e:
                        out.viol('raised', '%s_([A, 2, B, 3]) raised %s: %s' % (op, type(e).__name__, e), exc=type(e).__name__, **sigx)
            for op, fname, call, shape in forms:
                out.sub()
                sig = dict(op=op, how=how, columns=colpol, form=fname)
                try:
                    res = call([tm.build_frame(f) for f in F])
                    out.call()
                except Exception as e:
                    out.viol('raised', '%s (%s, join=%s, columns=%s) raised %s: %s' % (fname, fdesc, how, colpol, type(e).__name__, e), exc=type(e).__name__, **sig)
                    continue
                neutral = NEUTRAL[op]
                inner = {'sub': 'add', 'div': 'mul'}.get(op, op)
                exp = {}
                for c in allcols:
                    cols_al = [tm.align(f[c], days) if c in f else {d: NEUTRAL[inner] for d in days} for f in F]
                    if shape == 'fold':
                        exp[c] = {d: fold(op, [x[d] for x in cols_al]) for d in days}
                    elif shape == 'right':
                        first = tm.align(F[0][c], days) if c in F[0] else {d: neutral for d in days}
                        exp[c] = {d: npop(op, first[d], fold(inner, [x[d] for x in cols_al[1:]])) for d in days}
                    else:
                        last = tm.align(F[2][c], days) if c in F[2] else {d: neutral for d in days}
                        exp[c] = {d: npop(op, fold(inner, [x[d] for x in cols_al[:2]]), last[d]) for d in days}
                p = _bool_frame_problem(res, exp, '%s (%s, join=%s, columns=%s)' % (fname, fdesc, how, colpol))
                if p:
                    out.viol('wrong-value', p, **sig)
    if set(case['a'][0]) != set(case['b'][0]):
        out.nontrivial()
    out.cls('frames-%s' % ('same' if set(case['a'][0]) == set(case['b'][0]) else 'diff'))
    return out


# ------------------------------------------------------------------------------------------------ list reductions and aggregates

def check_lists(case):
    import pyg_base as P
    out = Out()
    models = [operand(d, k) for k, d in enumerate(case['v'])]
    desc = 'operands %s' % models
    k = len(models)

    def fresh():
        return [tm.build_series(m) for m in models]

    for how in ('ij', 'oj'):
        for op in ('add', 'mul', 'min', 'max'):
            out.sub()
            sig = dict(op=op, how=how, k=k)
            try:
                res = opfun(op)(fresh(), join=how)
                out.call()
                p = result_problem(res, expect_series(op, models, how), '%s_(list of %s, join=%s)' % (op, desc, how))
                if p:
                    out.viol('wrong-value', p, form='list', **sig)
                ss = fresh()
                head, tail = ss[:-1], ss[-1]
                r_a = opfun(op)(head, tail, join=how)            # a list on the left plus one more operand on the right
                r_b = opfun(op)(head, tail, join=how)            # the SAME list object again: it must not have been extended by the first call
                out.call(2)
                if len(head) != k - 1 or not _same(res, r_a) or not _same(r_a, r_b):
                    out.viol('operand-list-changed', '%s_([a, b..], z) twice with one list object (%s, join=%s): the list now holds %d operands, results %s / %s' % (
                        op, desc, how, len(head), list(getattr(r_a, 'values', [r_a])), list(getattr(r_b, 'values', [r_b]))), **sig)
                ss = fresh()
                res2 = opfun(op)(ss[0], ss[1:], join=how)
                out.call()
                if not _same(res, res2):
                    out.viol('list-form-differs', '%s_(a, [b, c..]) != %s_([a, b, c..]) for %s join=%s' % (op, op, desc, how), **sig)
            except Exception as e:
                out.viol('raised', '%s_(list of %s, join=%s) raised %s: %s' % (op, desc, how, type(e).__name__, e), exc=type(e).__name__, form='list', **sig)
    # sub_ / div_ take a list on either side: sub_(x, [y, z]) = x - (y + z), sub_([x, y], z) = (x + y) - z, div_ likewise with products
    for how in ('ij', 'oj'):
        days_ = tm.common_days([set(m) for m in models], how)
        al_ = [tm.align(m, days_) for m in models]
        for op, inner in (('sub', 'add'), ('div', 'mul')):
            for side in ('right', 'left'):
                out.sub()
                sig = dict(op=op, how=how, k=k, listside=side)
                ss = fresh()
                try:
                    if side == 'right':
                        res = opfun(op)(ss[0], ss[1:], join=how)
                        exp = {d: npop(op, al_[0][d], fold(inner, [a[d] for a in al_[1:]])) for d in days_}
                    else:
                        res = opfun(op)(ss[:-1], ss[-1], join=how)
                        exp = {d: npop(op, fold(inner, [a[d] for a in al_[:-1]]), al_[-1][d]) for d in days_}
                    out.call()
                    p = result_problem(res, exp, '%s_ with a list on the %s (%s, join=%s)' % (op, side, desc, how))
                    if p:
                        out.viol('wrong-value', p, form='list', **sig)
                    if op == 'div' and isinstance(res, pd.Series) and np.isinf(np.asarray(res, dtype=float)).any():
                        out.viol('div-inf', 'div_ with a list (%s, join=%s) contains inf' % (desc, how), **sig)
                except Exception as e:
                    out.viol('raised', '%s_ with a list on the %s (%s, join=%s) raised %s: %s' % (op, side, desc, how, type(e).__name__, e), exc=type(e).__name__, form='list', **sig)
    # left-to-right reduction is only observable in the last bit: (0.1 + 0.2) + 0.3 != 0.1 + (0.2 + 0.3); compared exactly
    FR = [0.1, 0.2, 0.3, 0.7]
    fm = [{d: FR[i] for d in m} for i, m in enumerate(models)]
    out.sub()
    try:
        res = opfun('add')([tm.build_series(m) for m in fm], join='ij')
        out.call()
        for t, v in zip(res.index, res.values):
            acc = FR[0]
            for x in FR[1:k]:
                acc = acc + x
            if float(v) != acc:
                out.viol('not-left-to-right', 'add_([0.1, 0.2, 0.3..] series) = %r, left-to-right float addition gives %r' % (float(v), acc), op='add', k=k)
                break
    except Exception as e:
        out.viol('raised', 'add_ on constant series raised %s: %s' % (type(e).__name__, e), op='add', form='const', k=k)
    # aggregates: union index, NaN skipped, NaN (count 0) where nobody has data
    days = tm.common_days([set(m) for m in models], 'oj')
    al = [tm.align(m, days) for m in models]
    exp_cnt = {d: sum(1 for a in al if a[d] is not None) for d in days}
    exp_sum = {d: (None if exp_cnt[d] == 0 else float(sum(a[d] for a in al if a[d] is not None))) for d in days}
    exp_mean = {d: (None if exp_cnt[d] == 0 else exp_sum[d] / exp_cnt[d]) for d in days}
    for fname, exp in (('df_sum', exp_sum), ('df_mean', exp_mean), ('df_count', {d: float(v) for d, v in exp_cnt.items()})):
        for form in ('list', 'ab'):
            out.sub()
            sig = dict(op=fname, form=form, k=k)
            try:
                ss = fresh()
                res = getattr(P, fname)(ss) if form == 'list' else getattr(P, fname)(ss[0], ss[1:])
                out.call()
                p = result_problem(res, exp, '%s(%s)' % (fname, desc))
                if p:
                    out.viol('wrong-aggregate', p, **sig)
            except Exception as e:
                out.viol('raised', '%s(%s) raised %s: %s' % (fname, desc, type(e).__name__, e), exc=type(e).__name__, **sig)
    # ---- a scalar among the operands of the aggregates: an observation at every date of the union index (a NaN scalar is no observation)
    if days:
        for sc, sname in ((10.0, '10.0'), (float('nan'), 'nan')):
            obs = 0 if sc != sc else 1
            cnt2 = {d: exp_cnt[d] + obs for d in days}
            sum2 = {d: (None if cnt2[d] == 0 else (exp_sum[d] or 0.0) + (sc if obs else 0.0)) for d in days}
            mean2 = {d: (None if cnt2[d] == 0 else sum2[d] / cnt2[d]) for d in days}
            for fname, exp in (('df_sum', sum2), ('df_mean', mean2), ('df_count', {d: float(v) for d, v in cnt2.items()})):
                out.sub()
                sig = dict(op=fname, form='list+scalar', k=k)
                try:
                    res = getattr(P, fname)(fresh() + [sc])
                    out.call()
                    p = result_problem(res, exp, '%s(%s and the scalar %s)' % (fname, desc, sname))
                    if p:
                        out.viol('wrong-aggregate', p, scalar=sname, **sig)
                except Exception as e:
                    out.viol('raised', '%s(%s and the scalar %s) raised %s: %s' % (fname, desc, sname, type(e).__name__, e), exc=type(e).__name__, scalar=sname, **sig)
    if len(set(frozenset(m) for m in models)) > 1:
        out.nontrivial()
    out.cls('list-%d-%s' % (k, 'gap' if any(v == 0 for v in exp_cnt.values()) else 'full'))
    return out


def check_frame_aggs(case):
    import pyg_base as P
    out = Out()
    fa = frame_model(case['a'], 0, COLSETS[0])
    fb = frame_model(case['b'], 1, COLSETS[1])
    days = tm.common_days([set(case['a'][0]), set(case['b'][0])], 'oj')
    cols = ['a', 'b', 'c']
    al = []
    for f in (fa, fb):
        al.append({c: (tm.align(f[c], days) if c in f else {d: None for d in days}) for c in cols})
    cnt = {c: {d: sum(1 for a in al if a[c][d] is not None) for d in days} for c in cols}
    sm = {c: {d: (None if cnt[c][d] == 0 else float(sum(a[c][d] for a in al if a[c][d] is not None))) for d in days} for c in cols}
    mean = {c: {d: (None if cnt[c][d] == 0 else sm[c][d] / cnt[c][d]) for d in days} for c in cols}
    for fname, exp in (('df_sum', sm), ('df_mean', mean), ('df_count', {c: {d: float(v) for d, v in cnt[c].items()} for c in cols})):
        out.sub()
        try:
            res = getattr(P, fname)([tm.build_frame(fa), tm.build_frame(fb)])
            out.call()
            p = _bool_frame_problem(res, exp, '%s(frames %s, %s)' % (fname, fa, fb))
            if p:
                out.viol('wrong-aggregate', p, op=fname, frames=True)
        except Exception as e:
            out.viol('raised', '%s(frames) raised %s: %s' % (fname, type(e).__name__, e), op=fname, frames=True, exc=type(e).__name__)
    out.nontrivial()
    out.cls('frame-aggs')
    return out


def gen_pairs(V):
    for a in V:
        for b in V:
            yield {'a': a, 'b': b}


def suites(tier, seed):
    q = tier == 'quick'
    T = 4 if q else 5
    rots = [0, 2, 3] if q else [0, 1, 2, 3, 4]
    V = variants(T, rots)
    Vf = variants(3 if q else 4, [0, 2] if q else [0, 2, 3])
    Vl = variants(3, [0] if q else [0, 3])
    S = [
        Suite('series_pairs', lambda: gen_pairs(V), check_pair,
              rule='all ordered pairs of Series over every index subset of %d days x %d value rotations of %s; 11 operators x {ij,oj}; commutativity and '
                   'list spelling for add/mul/min/max; non-trivial = overlapping but different indices' % (T, len(rots), VALSEQ), bounds=dict(days=T, rotations=len(rots))),
        Suite('scalars', lambda: ([{'a': v} for v in V] + [{'a': v, 'frame': True} for v in Vf]), check_scalar,
              rule='every Series / 2-column frame variant x 11 operators x scalars %s on either side; scalar with scalar' % SCALARS, bounds=dict(days=T)),
        Suite('frames', lambda: gen_pairs(Vf), check_frames,
              rule='all ordered pairs of 2-column frames ({a,b} with {b,c} and with {a,b}) over every index subset x rotations; operators x {ij,oj} x column '
                   "policy (ij; oj with the neutral element for add/sub/mul/div)", bounds=dict(days=3 if q else 4)),
        Suite('frame_series', lambda: gen_pairs(Vf), check_frame_series,
              rule='every 2-column frame variant with every Series variant, in both operand orders x 11 operators x {ij,oj}: the Series is an operand of every column',
              bounds=dict(days=3 if q else 4)),
        Suite('lists3', lambda: ({'v': list(c)} for c in itertools.product(Vl, repeat=3)), check_lists,
              rule='all ordered triples of Series over every subset of 3 days: add_/mul_/min_/max_ list forms (left-to-right reduction) x {ij,oj}; df_sum/df_mean/df_count '
                   '(union index, NaN skipped, NaN / count 0 where no operand has data)', bounds=dict(days=3, members=3)),
        Suite('frame_aggs', lambda: gen_pairs(Vf), check_frame_aggs,
              rule='df_sum/df_mean/df_count on all ordered pairs of frames {a,b} / {b,c}: union index, union columns, NaN skipped', bounds=dict(days=3 if q else 4)),
    ]
    if not q:
        V4 = variants(2, [0, 3])
        S.append(Suite('lists4', lambda: ({'v': list(c)} for c in itertools.product(V4, repeat=4)), check_lists,
                       rule='all ordered quadruples of Series over every subset of 2 days x 2 rotations, list forms and aggregates', bounds=dict(days=2, members=4)))
    return S
