"""
C12 -- df_fillna / nona fill or drop exactly the missing cells, arrays and pandas alike (DESIGN.md section 4, C12).

Engine E2: every NaN mask of a float vector of length 0..N and of a 2-column frame of 0..R rows.  One case is
one mask; inside the case the input is built as every container kind (Series with a daily DatetimeIndex and its
1-d array, a one-column DataFrame and its (n,1) array, the 2-column DataFrame and its 2-d array) and run through
every method / method list x limit of the closed menu below, plus nona(x) and nona(x, edge=+-1).

Oracle: scalar Python loops over lists (None stands for NaN); it never calls a pandas or pyg fill function.
"""
import itertools

import numpy as np
import pandas as pd

from mc.engine import Suite, Out
from mc.codec import show

PROPERTY = 'C12'
ASSUMPTIONS = [
    'a Series whose first two rows share one timestamp is run through every method except fnna / ffill_na / ffill_0 (their "leading" and "after the last valid observation" are label based and ambiguous for equal labels)',
    'inputs are float64 vectors / 2-column frames with distinct non-NaN cells; Series/DataFrame carry a daily DatetimeIndex '
    '(the empty ones pd.DatetimeIndex([])), arrays are writeable C-contiguous float64',
    "methods: 'ffill', 'bfill', 'backfill', 0, 5.5, ['ffill','bfill'], ['bfill','ffill'], ['ffill',0], 'nona', 'fnna', "
    "'ffill_na', 'ffill_0'; excluded: 'pad' (removed in pandas 3), interpolation methods, a date as method, axis=1, "
    'a constant together with a limit is only compared array-against-pandas (plus: no non-NaN cell changes, argument untouched) since which NaN cells are then filled is not stated '
    '([\'ffill\',0] runs with limit=None only), negative limits, nona(value=...)',
    'a list of methods is run with the one limit applied to each of its fill steps (that is what "in sequence" with a single '
    'limit argument means)',
    "'ffill_0' on a column without any valid observation: the statement does not say whether 0 is written; NaN or 0 accepted",
    'nona(x, edge=+-1): the statement does not define edge; only "the argument is not modified" and "every row holding a '
    'non-NaN cell survives unchanged, nothing else than all-NaN rows is removed" are asserted, and an exception is not judged',
    'result dtype, result name and whether the result shares memory with the argument are not compared',
]

LIMITS = [None, 1, 2, 3]
START = pd.Timestamp('2000-01-03')


def _menu():
    """(name, method, limits); name is the stable label used in classes and signatures"""
    m = []
    for name, method in (('ffill', 'ffill'), ('bfill', 'bfill'), ('backfill', 'backfill')):
        m.append((name, method, LIMITS))
    m.append(('0', 0, [None]))
    m.append(('5.5', 5.5, [None]))
    # the constant is any number: infinite, negative, a numpy scalar (an infinite constant is a value to fill with, not 'nothing to fill with')
    m.append(('inf', float('inf'), [None]))
    m.append(('-inf', -np.inf, [None]))
    m.append(('-1', -1, [None]))
    m.append(('np3', np.int64(3), [None]))
    m.append(('bfill+inf', ['bfill', np.float64('inf')], [None]))
    # a constant WITH a limit: which NaN cells pandas then fills is not stated (DIFF = only the clauses that do not depend on it: the array result equals
    # the values of the pandas result, no non-NaN cell changes, the argument is untouched)
    m.append(('0 limit', 0, [1, 2]))
    m.append(('5.5 limit', 5.5, [1]))
    m.append(('ffill+bfill', ['ffill', 'bfill'], LIMITS))
    m.append(('bfill+ffill', ['bfill', 'ffill'], LIMITS))
    m.append(('ffill+0', ['ffill', 0], [None]))
    # the same method twice is NOT the method once when a limit applies: each application reaches `limit` positions further
    m.append(('ffill+ffill', ['ffill', 'ffill'], LIMITS))
    m.append(('bfill+bfill', ['bfill', 'bfill'], LIMITS))
    m.append(('ffill+bfill+ffill', ['ffill', 'bfill', 'ffill'], LIMITS))
    m.append(('ffill+bfill tuple', ('ffill', 'bfill'), LIMITS))
    m.append(('nona', 'nona', [None]))
    m.append(('fnna', 'fnna', [None]))
    # lists mixing the row-dropping and the fill-up-to-the-last-observation methods with the others: every step works on the result of the step before
    for lst in (['fnna', 'ffill_na'], ['fnna', 'ffill_0'], ['nona', 'ffill'], ['fnna', 'bfill'], ['ffill', 'ffill_na'], ['bfill', 'ffill_0'],
                ['ffill_na', 'bfill'], ['ffill_0', 'fnna'], ['ffill', 'nona'], ['ffill_na', 'nona'],
                # a row-dropping step BEFORE fnna: the rows left no longer carry the labels 0..n-1 (arrays / default integer labels)
                ['nona', 'fnna'], ['fnna', 'fnna'], ['fnna', 'nona'], ['nona', 'ffill_0'],
                # two tail-aware methods in one list (on frames: every column has its own last observation, in every step)
                ['ffill_na', 'ffill_0'], ['ffill_na', 'ffill_na'], ['ffill_0', 'ffill_na']):
        m.append(('+'.join(lst), lst, [None, 1]))
    m.append(('ffill_na', 'ffill_na', LIMITS))
    m.append(('ffill_0', 'ffill_0', LIMITS))
    return m


MENU = _menu()
NCOMBOS = sum(len(l) for _, _, l in MENU) + 3          # + nona(x), nona(x, edge=1), nona(x, edge=-1)
NAN_OR_0 = 'nan|0'                                     # an unspecified cell: NaN or 0 both accepted


# ------------------------------------------------------------------------------------------------
# generators

def gen_vectors(maxlen):
    for n in range(maxlen + 1):
        for mask in itertools.product((0, 1), repeat=n):
            yield {'shape': 'vec', 'mask': list(mask)}          # 1 = NaN
            if 0 < n <= 5:
                yield {'shape': 'vec', 'mask': list(mask), 'vals': 'inf'}        # the non-NaN cells are +inf / -inf / finite in turn


def gen_frames(maxrows):
    for n in range(maxrows + 1):
        for mask in itertools.product((0, 1), repeat=2 * n):
            yield {'shape': 'frame', 'mask': [[mask[2 * i], mask[2 * i + 1]] for i in range(n)]}
            if n:
                # +inf next to -inf in one row: infinities are observations, not missing cells (a row total would cancel to NaN)
                yield {'shape': 'frame', 'mask': [[mask[2 * i], mask[2 * i + 1]] for i in range(n)], 'vals': 'inf'}


# ------------------------------------------------------------------------------------------------
# reference model: a column is a list of floats with None for NaN

def m_ffill(col, limit):
    res = list(col)
    last = None
    run = 0
    for i, v in enumerate(col):
        if v is None:
            run += 1
            if last is not None and (limit is None or run <= limit):
                res[i] = last
        else:
            last = v
            run = 0
    return res


def m_bfill(col, limit):
    return m_ffill(col[::-1], limit)[::-1]


def m_const(col, c):
    return [c if v is None else v for v in col]


def m_ffill_edge(col, limit, after):
    valid = [i for i, v in enumerate(col) if v is not None]
    if not valid:
        return list(col) if after is None else [NAN_OR_0] * len(col)
    last = valid[-1]
    f = m_ffill(col, limit)
    return [f[i] if i <= last else after for i in range(len(col))]


def model(cols, n, method):
    """-> (kept row positions, columns) for one method / list of methods and one limit"""
    name, steps, limit = method
    if name.endswith(' limit'):
        return 'DIFF', None
    kept = list(range(n))
    cols = [list(c) for c in cols]
    for s in steps:
        if any(v == NAN_OR_0 for c in cols for v in c):
            return None, None                # an unspecified cell (ffill_0 on a column without an observation) would flow into a further step: not judged
        if s == 'ffill':
            cols = [m_ffill(c, limit) for c in cols]
        elif s in ('bfill', 'backfill'):
            cols = [m_bfill(c, limit) for c in cols]
        elif s == 'ffill_na':
            cols = [m_ffill_edge(c, limit, None) for c in cols]
        elif s == 'ffill_0':
            cols = [m_ffill_edge(c, limit, 0.0) for c in cols]
        elif s in ('nona', 'fnna'):
            allnan = [all(c[i] is None for c in cols) for i in range(len(kept))]
            if s == 'nona':
                keep = [i for i in range(len(kept)) if not allnan[i]]
            else:
                first = next((i for i in range(len(kept)) if not allnan[i]), len(kept))
                keep = list(range(first, len(kept)))
            kept = [kept[i] for i in keep]
            cols = [[c[i] for i in keep] for c in cols]
        elif isinstance(s, (int, float, np.integer, np.floating)):
            cols = [m_const(c, float(s)) for c in cols]
        else:
            raise ValueError(s)
    return kept, cols


# ------------------------------------------------------------------------------------------------
# building, snapshots, comparisons

def _cell_ok(got, exp):
    g = None if (got is None or got != got) else float(got)
    if exp == NAN_OR_0:
        return g is None or g == 0.0
    if exp is None or g is None:
        return exp is None and g is None
    return g == exp


def _cells(a):
    """2-d list of Python floats / None out of a 1-d or 2-d float array"""
    a = np.asarray(a)
    if a.ndim == 1:
        return [[None if v != v else float(v)] for v in a.tolist()]
    return [[None if v != v else float(v) for v in row] for row in a.tolist()]


def _arr_same(a, b):
    """NaN-aware equality of two arrays including the shape"""
    a = np.asarray(a)
    b = np.asarray(b)
    if a.shape != b.shape:
        return False
    if a.size == 0:
        return True
    try:
        return bool(np.all((a == b) | ((a != a) & (b != b))))
    except Exception:
        return False


class Input:
    """one mask in one container kind; build() returns a fresh real object every time"""

    def __init__(self, kind, cols, n):
        self.kind = kind                    # series | arr1 | df1 | arr21 | df2 | arr22
        self.cols = cols
        self.n = n
        self.ncol = len(cols)
        self.names = ['a', 'a'] if kind == 'df2same' else ['a', 'b'][:self.ncol]
        self.is_pd = kind in ('series', 'series_dup', 'df1', 'df2', 'df2same')
        self.ndim = 1 if kind in ('series', 'series_dup', 'arr1', 'arr1f32') else 2
        self.stamps = [START + pd.Timedelta(days=i) for i in range(n)]
        if kind == 'series_dup' and n >= 2:
            self.stamps[1] = self.stamps[0]          # two observations carrying one timestamp: rows are positions, not labels

    def _index(self):
        return pd.DatetimeIndex(list(self.stamps)) if self.n else pd.DatetimeIndex([])

    def _raw(self):
        fl = [[np.nan if v is None else v for v in c] for c in self.cols]
        if self.kind == 'arr1f32':
            return np.array(fl[0], dtype=np.float32)          # a float array of another width holds NaN like any float array
        if self.ndim == 1:
            return np.array(fl[0], dtype=float)
        return np.array(fl, dtype=float).T.reshape(self.n, self.ncol).copy()

    def build(self):
        raw = self._raw()
        if self.kind in ('series', 'series_dup'):
            return pd.Series(raw, index=self._index(), dtype=float)
        if self.kind in ('df1', 'df2'):
            return pd.DataFrame({nm: raw[:, j].copy() for j, nm in enumerate(self.names)}, index=self._index(),
                                columns=list(self.names), dtype=float)
        if self.kind == 'df2same':
            return pd.DataFrame(raw.copy(), index=self._index(), columns=['a', 'a'], dtype=float)          # two columns carrying ONE label: columns are positions
        return raw

    def rows(self):
        return [[c[i] for c in self.cols] for i in range(self.n)]

    def snapshot(self, x):
        if self.is_pd:
            return dict(values=np.array(x.values, dtype=float, copy=True), index=list(x.index), shape=x.shape,
                        columns=(list(x.columns) if self.ndim == 2 else None), typ=type(x))
        return dict(values=np.array(x, copy=True), shape=x.shape, dtype=str(x.dtype), writeable=bool(x.flags.writeable),
                    typ=type(x))

    def changed(self, x, snap):
        """None if x still equals its snapshot, else a description"""
        if type(x) is not snap['typ']:
            return 'type became %s' % type(x).__name__
        if x.shape != snap['shape']:
            return 'shape %s -> %s' % (snap['shape'], x.shape)
        if self.is_pd:
            if list(x.index) != snap['index']:
                return 'index %s -> %s' % (show(snap['index']), show(list(x.index)))
            if self.ndim == 2 and list(x.columns) != snap['columns']:
                return 'columns %s -> %s' % (snap['columns'], list(x.columns))
            if not _arr_same(np.asarray(x.values, dtype=float), snap['values']):
                return 'values %s -> %s' % (show(snap['values'].tolist()), show(x.values.tolist()))
            return None
        if str(x.dtype) != snap['dtype']:
            return 'dtype %s -> %s' % (snap['dtype'], x.dtype)
        if bool(x.flags.writeable) != snap['writeable']:
            return 'flags.writeable %s -> %s' % (snap['writeable'], bool(x.flags.writeable))
        if not _arr_same(x, snap['values']):
            return 'values %s -> %s' % (show(snap['values'].tolist()), show(x.tolist()))
        return None


def _lim(limit):
    return 'none' if limit is None else 'n'


def _compare_pd(out, inp, res, kept, ecols, label, sig):
    """result of a pandas input against the model; True when it conforms"""
    want_t = pd.Series if inp.ndim == 1 else pd.DataFrame
    if not isinstance(res, want_t):
        out.viol('wrong-type', '%s: expected a %s, got %s %s' % (label, want_t.__name__, type(res).__name__, show(res)), **sig)
        return False
    if inp.ndim == 2 and list(res.columns) != inp.names:
        out.viol('columns-lost', '%s: expected columns %s and shape %s, got columns %s shape %s'
                 % (label, inp.names, (len(kept), inp.ncol), list(res.columns), res.shape), rows0=inp.n == 0, **sig)
        return False
    want_idx = [inp.stamps[i] for i in kept]
    if list(res.index) != want_idx:
        out.viol('wrong-rows', '%s: expected the rows at positions %s (index %s), got index %s values %s'
                 % (label, kept, show([str(t.date()) for t in want_idx]), show([str(t) for t in res.index]), show(np.asarray(res.values).tolist())),
                 **sig)
        return False
    return _compare_cells(out, inp, _cells(res.values), kept, ecols, label, sig)


def _compare_cells(out, inp, got, kept, ecols, label, sig):
    exp = [[c[r] for c in ecols] for r in range(len(kept))]
    if len(got) != len(exp) or any(len(g) != inp.ncol for g in got):
        out.viol('wrong-rows', '%s: expected %d rows x %d columns %s, got %s' % (label, len(exp), inp.ncol, show(exp), show(got)), **sig)
        return False
    for r, pos in enumerate(kept):
        for j in range(inp.ncol):
            if not _cell_ok(got[r][j], exp[r][j]):
                orig = inp.cols[j][pos]
                if orig is not None:
                    out.viol('nonnan-cell-changed', '%s: the non-NaN cell %r at row %d column %d became %r; expected %s got %s'
                             % (label, orig, pos, j, got[r][j], show(exp), show(got)), **sig)
                else:
                    out.viol('wrong-fill', '%s: the NaN cell at row %d column %d: expected %r got %r; expected %s got %s'
                             % (label, pos, j, exp[r][j], got[r][j], show(exp), show(got)), **sig)
                return False
    return True


def _compare_arr(out, inp, res, pd_res, kept, ecols, label, sig):
    """result of an array input: equals .values of the result for the corresponding pandas object (if that result
    conformed it is the model, otherwise compare with the model directly)"""
    if not isinstance(res, np.ndarray):
        out.viol('array-result-not-values', '%s: expected a numpy array (the .values of the pandas result), got %s %s'
                 % (label, type(res).__name__, show(res)), **sig)
        return False
    if pd_res is not None:
        pv = np.asarray(pd_res.values)
        if not _arr_same(res, pv):
            out.viol('array-differs-from-pandas', '%s: array result %s (shape %s) but the pandas result has values %s (shape %s)'
                     % (label, show(res.tolist()), res.shape, show(pv.tolist()), pv.shape), **sig)
            return False
        return True
    want_shape = (len(kept),) if inp.ndim == 1 else (len(kept), inp.ncol)
    if inp.ndim == 2 and res.ndim == 2 and res.shape[1] != inp.ncol:
        out.viol('columns-lost', '%s: expected shape %s, got shape %s %s' % (label, want_shape, res.shape, show(res.tolist())),
                 rows0=inp.n == 0, **sig)
        return False
    if res.shape != want_shape:
        out.viol('wrong-rows', '%s: expected shape %s, got %s %s' % (label, want_shape, res.shape, show(res.tolist())), **sig)
        return False
    return _compare_cells(out, inp, _cells(res), kept, ecols, label, sig)


def _weak_rows(out, inp, res, label, sig):
    """nona with an edge: only all-NaN rows may disappear, every other row survives unchanged and in order"""
    if inp.is_pd:
        if not isinstance(res, (pd.Series, pd.DataFrame)):
            out.viol('wrong-type', '%s: got %s' % (label, type(res).__name__), **sig)
            return
        labels = list(res.index)
    elif not isinstance(res, np.ndarray):
        out.viol('wrong-type', '%s: got %s' % (label, type(res).__name__), **sig)
        return
    vals = np.asarray(res.values if inp.is_pd else res)
    if vals.ndim != inp.ndim or (vals.ndim == 2 and vals.shape[1] != inp.ncol and inp.n > 0):
        out.viol('wrong-rows', '%s: result has shape %s' % (label, vals.shape), **sig)
        return
    got = _cells(vals) if vals.size else []
    rows = inp.rows()
    if inp.is_pd:
        pos = {t: i for i, t in enumerate(inp.stamps)}
        where = [pos.get(t) for t in labels]
        if None in where or where != sorted(set(where)) or any(got[k] != rows[p] for k, p in enumerate(where)):
            out.viol('wrong-rows', '%s: result rows %s at %s are not rows of the input %s' % (label, show(got), show([str(t) for t in labels]), show(rows)),
                     **sig)
            return
        lost = [p for p in range(inp.n) if p not in where and any(v is not None for v in rows[p])]
    else:
        full_in = [r for r in rows if any(v is not None for v in r)]
        full_out = [r for r in got if any(v is not None for v in r)]
        lost = [] if full_in == full_out and len(got) <= len(rows) else ['?']
    if lost:
        out.viol('nonnan-row-dropped', '%s: rows holding non-NaN cells were removed or changed: input %s result %s' % (label, show(rows), show(got)), **sig)


# ------------------------------------------------------------------------------------------------

def check(case):
    from pyg_base import df_fillna, nona
    out = Out()
    if case['shape'] == 'vec':
        n = len(case['mask'])
        cols = [[None if case['mask'][i] else 10.0 * i + 1 for i in range(n)]]
        if case.get('vals') == 'inf':
            INF = float('inf')
            cols = [[None if case['mask'][i] else (INF, -INF, 10.0 * i + 1)[i % 3] for i in range(n)]]
        pairs = [('series', 'arr1'), ('df1', 'arr21')]
        if 2 <= n <= 5 and not case.get('vals'):
            pairs.append(('series_dup', 'arr1'))
        if 1 <= n <= 4:
            pairs.append(('series', 'arr1f32'))
    else:
        n = len(case['mask'])
        cols = [[None if case['mask'][i][j] else 10.0 * (2 * i + j) + 1 for i in range(n)] for j in range(2)]
        if case.get('vals') == 'inf':
            INF = float('inf')
            cols = [[None if case['mask'][i][j] else ((INF, -INF)[j] if i % 2 == 0 else (-1e308, INF)[j]) for i in range(n)] for j in range(2)]
        pairs = [('df2', 'arr22')]
        if n and not case.get('vals'):
            pairs.append(('df2same', 'arr22'))
    flat = [v for c in cols for v in c]
    mixed = any(v is None for v in flat) and any(v is not None for v in flat)

    calls = []                                               # (name, steps, limit, callable)
    owned = []                                               # (name, limit, the list object handed to df_fillna, what it must still hold)
    for name, method, limits in MENU:
        steps = list(method) if isinstance(method, (list, tuple)) else [method]
        for limit in limits:
            # a method LIST is the caller's object: ONE list object serves every call made with this (methods, limit) entry and must still be what it was afterwards
            mobj = list(method) if isinstance(method, list) else method
            if limit is None:
                fn = lambda x, mobj=mobj: df_fillna(x, mobj)
            else:
                fn = lambda x, mobj=mobj, limit=limit: df_fillna(x, mobj, limit=limit)
            calls.append((name, steps, limit, fn, 'df_fillna(x, %r%s)' % (method, '' if limit is None else ', limit=%d' % limit)))
            if isinstance(method, list):
                owned.append((name, limit, mobj, list(method)))
    calls.append(('nona()', ['nona'], None, lambda x: nona(x), 'nona(x)'))
    # the missing value named explicitly, as NaN objects that are not the np.nan singleton
    calls.append(('nona(float nan)', ['nona'], None, lambda x: nona(x, float('nan')), "nona(x, float('nan'))"))
    calls.append(('nona(np.float64 nan)', ['nona'], None, lambda x: nona(x, np.float64('nan')), "nona(x, np.float64('nan'))"))

    for pk, ak in pairs:
        P = Input(pk, cols, n)
        A = Input(ak, cols, n)
        for name, steps, limit, fn, spell in calls:
            if pk == 'series_dup' and any(st in ('fnna', 'ffill_na', 'ffill_0') for st in steps):
                continue        # 'leading' / 'after the last valid observation' are decided by LABEL there: ambiguous when two rows share a timestamp
            kept, ecols = model(cols, n, (name, steps, limit))
            if kept is None:
                continue
            # ---- pandas object
            pd_ok = None
            for inp in (P, A):
                out.sub()
                sig = dict(method=name, container=inp.kind, limit=_lim(limit))
                x = inp.build()
                snap = inp.snapshot(x)
                label = '%s with x = %s %s' % (spell, inp.kind, show(inp.rows()))
                try:
                    res = fn(x)
                except Exception as e:
                    out.call()
                    out.viol('raised', '%s: raised %s: %s; expected rows %s values %s' % (label, type(e).__name__, e, kept, show(ecols)), **sig)
                    res = None
                    raised = True
                else:
                    out.call()
                    raised = False
                how = inp.changed(x, snap)
                if how is not None:
                    out.viol('operand-mutated', '%s: the argument was modified: %s' % (label, how), **sig)
                if raised:
                    continue
                if kept == 'DIFF':
                    vals = np.asarray(res.values if inp.is_pd else res) if isinstance(res, (pd.Series, pd.DataFrame, np.ndarray)) else None
                    raw0 = np.asarray(inp._raw())
                    if vals is None or vals.shape != raw0.shape:
                        out.viol('wrong-rows', '%s: a constant fill keeps every row, got %s' % (label, show(res)), **sig)
                    elif not bool(np.all((vals == raw0) | (raw0 != raw0))):
                        out.viol('non-nan-changed', '%s: a non-NaN cell changed: %s' % (label, show(vals.tolist())), **sig)
                    elif inp.is_pd:
                        pd_ok = res
                    elif pd_ok is not None and not _arr_same(vals, np.asarray(pd_ok.values)):
                        out.viol('array-differs-from-pandas', '%s: array result %s but the pandas result has values %s' % (label, show(vals.tolist()), show(np.asarray(pd_ok.values).tolist())), **sig)
                    out.cls('%s:diff-only' % name)
                    continue
                if inp.is_pd:
                    if _compare_pd(out, inp, res, kept, ecols, label, sig):
                        pd_ok = res
                else:
                    _compare_arr(out, inp, res, pd_ok, kept, ecols, label, sig)
                # ---- bookkeeping
                if n == 0:
                    out.cls('%s:empty' % name)
                elif len(kept) < n:
                    out.cls('%s:dropped-rows' % name)
                    if mixed:
                        out.nontrivial('%s|%s|%s' % (inp.kind, name, limit))
                elif any(not _cell_ok(np.nan if a is None else a, b) for c0, c1 in zip(cols, ecols) for a, b in zip(c0, c1)):
                    out.cls('%s:changed' % name)
                    if mixed:
                        out.nontrivial('%s|%s|%s' % (inp.kind, name, limit))
                else:
                    out.cls('%s:unchanged' % name)
        for name_, limit_, mobj, keep in owned:
            if mobj != keep:
                out.viol('operand-mutated', 'df_fillna(x, m%s) with m = %r: the list is now %r' % ('' if limit_ is None else ', limit=%d' % limit_, keep, mobj), method=name_, container='method-list',
                         limit=_lim(limit_))
                mobj[:] = keep
        # ---- nona with an edge: argument untouched, only all-NaN rows may go
        for edge in (1, -1):
            if pk == 'series_dup':
                break                      # edge cuts by label (df_slice): ambiguous for equal labels
            for inp in (P, A):
                out.sub()
                name = 'nona(edge=%d)' % edge
                sig = dict(method=name, container=inp.kind, limit='none')
                x = inp.build()
                snap = inp.snapshot(x)
                label = 'nona(x, edge=%d) with x = %s %s' % (edge, inp.kind, show(inp.rows()))
                try:
                    res = nona(x, edge=edge)
                    raised = False
                except Exception:
                    raised = True                     # not judged: the statement does not define edge
                out.call()
                how = inp.changed(x, snap)
                if how is not None:
                    out.viol('operand-mutated', '%s: the argument was modified: %s' % (label, how), **sig)
                if raised:
                    out.cls('%s:raised' % name)
                    continue
                _weak_rows(out, inp, res, label, sig)
                nres = len(res) if hasattr(res, '__len__') else -1
                out.cls('%s:%s' % (name, 'empty' if n == 0 else 'dropped-rows' if nres < n else 'unchanged'))
                if mixed and nres < n:
                    out.nontrivial('%s|%s' % (inp.kind, name))
    return out


def suites(tier, seed):
    maxlen = 6 if tier == 'quick' else 9
    maxrows = 3 if tier == 'quick' else 4
    rule = ('non-trivial = (mask, container, method, limit) with at least one NaN and one non-NaN cell in the input and a reference '
            'result that differs from the input (a cell filled or a row dropped)')
    return [
        Suite('vectors', lambda: gen_vectors(maxlen), check,
              rule='every NaN mask of a float vector of length 0..%d, as Series (daily DatetimeIndex), 1-d array, one-column DataFrame and (n,1) '
                   'array x %d method/limit combinations (incl. nona(x), nona(x, edge=+-1)); %s' % (maxlen, NCOMBOS, rule),
              bounds=dict(max_len=maxlen, containers=4, combos=NCOMBOS, limits=[0 if l is None else l for l in LIMITS])),
        Suite('frames', lambda: gen_frames(maxrows), check,
              rule='every NaN mask of a 2-column frame of 0..%d rows, as DataFrame (daily DatetimeIndex) and 2-d array x %d method/limit '
                   'combinations; %s' % (maxrows, NCOMBOS, rule),
              bounds=dict(max_rows=maxrows, columns=2, containers=2, combos=NCOMBOS, limits=[0 if l is None else l for l in LIMITS])),
    ]
