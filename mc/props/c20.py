"""
C20 -- perdictable evaluates a function once per row of the keyed join of its inputs (DESIGN.md section 4, C20).

E2: every assignment of {scalar, table over any subset of the key set (rows in scrambled order)} to 1..4 inputs x every subset of
table-valued inputs with a default x previously computed data over any subset of keys with expiry per key in
{no expiry row, past, future, None}; one and two key columns (both orders of `on`).
Oracle: inner/outer join model + a call log per key (the values handed to f name the key they belong to).
"""
import datetime
import itertools

from mc.engine import Suite, Out
from mc.codec import show

PROPERTY = 'C20'
ASSUMPTIONS = [
    'inputs are passed by keyword; tables have the key column(s) plus one value column named like the parameter; keys are unique inside a table',
    'the value returned when NO key survives is not checked (the code returns the supplied data or None) - only that f is not called',
    'previously computed data is only combined with at least one table input that has no default (data/expiry are themselves outer-joined inputs, so '
    'without such an input their keys would extend the key set - not covered by the statement); expiry rows exist only for keys that have data',
    'past = 2000-01-01 and future = 2900-01-01, so the verdict does not depend on the run date',
    'if_none and include_inputs keep their defaults, output_is_input too except in the suite output_is_input; functions with several named outputs (f.output, a dict result) only in the suite named_outputs',
    'a table may carry only SOME of the key columns (suite partial_keys): it is joined on the ones it has, as the library does for every input (`d.keys() & on`)',
]

PAST = datetime.datetime(2000, 1, 1)
FUTURE = datetime.datetime(2900, 1, 1)
EXP = ['norow', 'past', 'future', 'none']


def subsets(keys):
    return [list(c) for r in range(len(keys) + 1) for c in itertools.combinations(keys, r)]


def gen_one(keys, ninputs, with_data, data_mode='full'):
    """cases over one key column"""
    names = ['a', 'b', 'c', 'd'][:ninputs]
    kinds = ['scalar'] + subsets(keys)
    for combo in itertools.product(range(len(kinds)), repeat=ninputs):
        assign = {n: kinds[i] for n, i in zip(names, combo)}
        tables = [n for n in names if assign[n] != 'scalar']
        for r in range(len(tables) + 1):
            for dfl in itertools.combinations(tables, r):
                base = {'keys': keys, 'inputs': assign, 'defaults': list(dfl), 'data': None}
                yield base
                if with_data and any(t not in dfl for t in tables):
                    for dk in subsets(keys):
                        if not dk:
                            continue
                        opts = itertools.product(EXP, repeat=len(dk)) if data_mode == 'full' else [tuple([e] * len(dk)) for e in EXP]
                        for ex in opts:
                            yield dict(base, data={k: e for k, e in zip(dk, ex)})


def check_one(case):
    from pyg_base import perdictable, join, dictable
    out = Out()
    keys = case['keys']
    assign = case['inputs']
    names = list(assign)
    dfl = case['defaults']
    data = case['data']
    calls = []

    def f2(a, b=None, c=None, d=None):
        calls.append((a, b, c, d))
        return 'f(%s,%s,%s,%s)' % (a, b, c, d)
    src = 'def f(%s):\n    return _f(%s)\n' % (', '.join(names), ', '.join('%s=%s' % (n, n) for n in names))
    ns = {'_f': f2}
    exec(src, ns)
    f = ns['f']

    def table(n, ks, scramble):
        ks = list(ks)[::-1] if scramble else list(ks)
        return dictable({'k': ks, n: ['%s:%s' % (n, k) for k in ks]})

    def inputs():
        d = {}
        for i, n in enumerate(names):
            d[n] = '%s:*' % n if assign[n] == 'scalar' else table(n, assign[n], scramble=(i % 2 == 0))
        return d
    defaults = {n: '%s:default' % n for n in dfl}
    tabs = {n: set(assign[n]) for n in names if assign[n] != 'scalar'}
    nodef = [n for n in tabs if n not in dfl]
    label = 'inputs %s defaults %s data %s' % (assign, dfl, data)
    sig = dict(ninputs=len(names), data=data is not None, defaults=len(dfl))

    # ---------------- model
    if not tabs:
        surviving = None          # all scalars
    elif nodef:
        s = set(keys)
        for n in nodef:
            s &= tabs[n]
        surviving = [k for k in sorted(keys) if k in s]
    else:
        u = set()
        for n in tabs:
            u |= tabs[n]
        surviving = [k for k in sorted(keys) if k in u]

    def value_of(n, k):
        if assign[n] == 'scalar':
            return '%s:*' % n
        return '%s:%s' % (n, k) if k in tabs[n] else defaults[n]

    # ---------------- perdictable
    out.sub()
    kw = inputs()
    snaps = {n: ({c: list(v) for c, v in t.items()} if isinstance(t, dictable) else t) for n, t in kw.items()}
    if data is not None:
        dkeys = list(data)[::-1]          # previously computed values arrive in no particular order
        kw['data'] = dictable({'k': dkeys, 'data': ['old:%s' % k for k in dkeys]})
        er = [k for k in data if data[k] != 'norow']
        if er:
            kw['expiry'] = dictable({'k': er, 'expiry': [{'past': PAST, 'future': FUTURE, 'none': None}[data[k]] for k in er]})
    p = perdictable(f, on='k', defaults=dict(defaults) if dfl else {})
    try:
        res = p(**kw)
        out.call()
    except Exception as e:
        out.viol('perdictable-raised', 'perdictable(f, on=k)(%s) raised %s: %s' % (label, type(e).__name__, e), exc=type(e).__name__, **sig)
        res = e
    if not isinstance(res, Exception):
        if surviving is None:
            want = 'f(%s)' % ','.join([value_of(n, None) for n in names] + ['None'] * (4 - len(names)))
            if res != want or len(calls) != 1:
                out.viol('scalar-call-wrong', '%s: all inputs are scalars, expected f(...) = %r evaluated once, got %r with %d calls' % (label, want, res, len(calls)), **sig)
            out.cls('all-scalar')
        elif not surviving:
            if calls:
                out.viol('called-without-key', '%s: no key survives the join but f was called %d times' % (label, len(calls)), **sig)
            out.cls('no-key')
        else:
            kept = [k for k in surviving if data is not None and data.get(k) == 'past']
            try:
                ok = isinstance(res, dictable) and set(res.keys()) >= {'k', 'data'}
                got_keys = list(res['k']) if ok else None
            except Exception:
                ok, got_keys = False, None
            if not ok:
                out.viol('result-shape', '%s: expected a table keyed by k with a data column, got %r' % (label, res), **sig)
            elif got_keys != surviving:
                out.viol('wrong-keys', '%s: result keys %s, expected exactly %s in this order (inner join of the inputs without default, sorted by key)' % (
                    label, got_keys, surviving), missing=bool(set(surviving) - set(got_keys)), extra=bool(set(got_keys) - set(surviving)),
                    order_only=sorted(got_keys) == sorted(surviving), **sig)
            else:
                for k, v in zip(res['k'], res['data']):
                    want = 'old:%s' % k if k in kept else 'f(%s)' % ','.join([value_of(n, k) for n in names] + ['None'] * (4 - len(names)))
                    if v != want:
                        out.viol('wrong-value', '%s: value for key %s is %r, expected %r' % (label, k, v, want), kept=k in kept, **sig)
                        break
                # the call log: exactly one evaluation per recomputed key, none for kept keys and for keys outside the join
                per = {}
                for c in calls:
                    ks = set(x.split(':')[1] for x in c if isinstance(x, str) and x.split(':')[1] not in ('*', 'default'))
                    per[tuple(sorted(ks))] = per.get(tuple(sorted(ks)), 0) + 1
                want_calls = {(k,): 1 for k in surviving if k not in kept}
                if per != want_calls:
                    out.viol('wrong-call-count', '%s: f was evaluated %s (by key), expected %s' % (label, per, want_calls),
                             kept_called=any((k,) in per for k in kept), **sig)
            if len(surviving) < len(keys) or kept:
                out.nontrivial()
            out.cls('join%s%s' % ('+kept' if kept else '', '+default' if dfl else ''))
        for n, t in kw.items():
            if n in snaps and isinstance(t, dictable) and {c: list(v) for c, v in t.items()} != snaps[n]:
                out.viol('input-mutated', '%s: input table %s was changed' % (label, n), **sig)

    # ---------------- tables whose single value column carries a generic name ('val'), and ONE table object serving two inputs
    if data is None and tabs:
        out.sub()
        calls[:] = []

        def gtable(n, ks):
            ks = list(ks)[::-1]
            return dictable({'k': ks, 'val': ['%s:%s' % (n, k) for k in ks]})
        kw2 = {n: ('%s:*' % n if assign[n] == 'scalar' else gtable(n, assign[n])) for n in names}
        same = [n for n in names if assign[n] != 'scalar' and n not in dfl]
        shared = None
        if len(same) >= 2 and set(assign[same[0]]) == set(assign[same[1]]):
            shared = gtable('s', assign[same[0]])
            kw2[same[0]] = shared
            kw2[same[1]] = shared
        snaps2 = {n: {c: list(v) for c, v in t.items()} for n, t in kw2.items() if isinstance(t, dictable)}
        try:
            res2 = perdictable(f, on='k', defaults=dict(defaults) if dfl else {})(**kw2)
            out.call()
            if surviving:
                def val2(n, k):
                    if assign[n] == 'scalar':
                        return '%s:*' % n
                    if k not in tabs[n]:
                        return defaults[n]
                    return '%s:%s' % ('s' if (shared is not None and n in same[:2]) else n, k)
                want2 = ['f(%s)' % ','.join([val2(n, k) for n in names] + ['None'] * (4 - len(names))) for k in surviving]
                if not isinstance(res2, dictable) or list(res2['k']) != surviving or list(res2['data']) != want2:
                    out.viol('wrong-value', '%s with value columns named val%s: got %r, expected keys %s values %s' % (
                        label, ' and one table object for %s' % same[:2] if shared is not None else '', res2, surviving, want2), generic=True, shared=shared is not None, **sig)
            for n, t in kw2.items():
                if isinstance(t, dictable) and {c: list(v) for c, v in t.items()} != snaps2[n]:
                    out.viol('input-mutated', '%s: the input table for %s (columns k, val) was changed to columns %s' % (label, n, list(t.keys())), generic=True, **sig)
                    break
        except Exception as e:
            out.viol('perdictable-raised', '%s with value columns named val raised %s: %s' % (label, type(e).__name__, e), exc=type(e).__name__, generic=True, **sig)
    # ---------------- ONE lifted function (and one defaults dict) serving several calls: a call that leaves the defaulted inputs out must not change what the next call does
    if data is None and tabs and dfl and len(dfl) < len(names):
        out.sub()
        src2 = 'def g(%s):\n    return _f(%s)\n' % (', '.join(n if n not in dfl else "%s='%s:own'" % (n, n) for n in sorted(names, key=lambda n: n in dfl)),
                                                  ', '.join('%s=%s' % (n, n) for n in names))
        ns2 = {'_f': f2}
        exec(src2, ns2)
        g = ns2['g']
        dd = dict(defaults)
        try:
            pg = perdictable(g, on='k', defaults=dd)
            part = {n: v for n, v in inputs().items() if n not in dfl}
            pg(**part)                                   # the defaulted inputs are left to g's own defaults
            after_first = dict(dd)
            calls[:] = []
            again = pg(**inputs())
            fresh = perdictable(g, on='k', defaults=dict(defaults))(**inputs())
            out.call(3)
            jd = dict(defaults)
            join(part, on='k', defaults=jd)
            out.call()
            # (perdictable itself adds 'data' / 'expiry' entries to the dict it was given; only the entries the caller put there are compared)
            kept_entries = lambda d: {k: d[k] for k in defaults if k in d}
            after_first, dd, jd = kept_entries(after_first), kept_entries(dd), kept_entries(jd)
            if after_first != defaults or dd != defaults or jd != defaults:
                out.viol('defaults-mutated', '%s: of the entries of the defaults dict handed to %s only %r are left (was %r)' % (label, 'join' if jd != defaults else 'perdictable', jd if jd != defaults else dd, defaults),
                         via='join' if jd != defaults else 'perdictable', **sig)
            same_res = (isinstance(again, dictable) and isinstance(fresh, dictable) and list(again.get('k', [])) == list(fresh.get('k', [])) and list(again.get('data', [])) == list(fresh.get('data', []))) \
                if isinstance(fresh, dictable) else again == fresh
            if not same_res:
                out.viol('call-history-dependent', '%s: after a call without the defaulted inputs %s the same lifted function returns %r, a fresh one returns %r' % (label, dfl, again, fresh), **sig)
            elif isinstance(fresh, dictable) and surviving is not None and list(fresh['k']) != surviving:
                out.viol('wrong-keys', '%s (f with own defaults): result keys %s, expected %s' % (label, list(fresh['k']), surviving), missing=True, extra=False, order_only=False, **sig)
        except Exception as e:
            out.viol('perdictable-raised', '%s: calling one lifted function twice (first without the defaulted inputs) raised %s: %s' % (label, type(e).__name__, e), exc=type(e).__name__, twice=True, **sig)
    # ---------------- a table input that carries, next to the column named after its parameter, further columns - one of them literally called 'data'
    #                  (e.g. the include_inputs output of an earlier run fed back in): the value is the column named after the parameter
    if data is None and tabs and surviving:
        out.sub()
        calls[:] = []

        def xtable(n, ks):
            ks = list(ks)[::-1]
            cols5 = {'k': ks, n: ['%s:%s' % (n, k) for k in ks], 'expiry': [None] * len(ks), 'data': ['junk:%s' % k for k in ks]}
            if names.index(n) % 2:
                cols5 = {c: cols5[c] for c in ('k', 'data', 'expiry', n)}          # ... stored before or after the named column
            return dictable(cols5)
        kw5 = {n: ('%s:*' % n if assign[n] == 'scalar' else xtable(n, assign[n])) for n in names}
        try:
            r5 = perdictable(f, on='k', defaults=dict(defaults) if dfl else {})(**kw5)
            out.call()
            want5 = ['f(%s)' % ','.join([value_of(n, k) for n in names] + ['None'] * (4 - len(names))) for k in surviving]
            if not isinstance(r5, dictable) or list(r5['k']) != surviving or list(r5['data']) != want5:
                out.viol('wrong-value', "%s, every table also holding columns 'data' and 'expiry': got keys %s values %s, expected keys %s values %s" % (
                    label, list(r5['k']) if isinstance(r5, dictable) else r5, list(r5['data']) if isinstance(r5, dictable) else None, surviving, want5), generic=True, shared=False, extra_data_column=True, **sig)
        except Exception as e:
            out.viol('perdictable-raised', "%s with tables also holding a column called 'data' raised %s: %s" % (label, type(e).__name__, e), exc=type(e).__name__, generic=True, **sig)
    # ---------------- a None CELL of a defaulted table input is a value (f gets None for that key); only keys the table LACKS receive the default
    if data is None and surviving and any(n in tabs and tabs[n] for n in dfl):
        out.sub()
        calls[:] = []
        holes = {n: sorted(tabs[n])[0] for n in dfl if n in tabs and tabs[n]}          # input -> the key whose cell is None

        def ntable(n, ks):
            ks = list(ks)[::-1]
            return dictable({'k': ks, n: [None if holes.get(n) == k else '%s:%s' % (n, k) for k in ks]})
        kw6 = {n: ('%s:*' % n if assign[n] == 'scalar' else ntable(n, assign[n])) for n in names}

        def val6(n, k):
            return None if holes.get(n) == k else value_of(n, k)
        try:
            r6 = perdictable(f, on='k', defaults=dict(defaults))(**kw6)
            out.call()
            want6 = ['f(%s)' % ','.join([str(val6(n, k)) for n in names] + ['None'] * (4 - len(names))) for k in surviving]
            if not isinstance(r6, dictable) or list(r6['k']) != surviving or list(r6['data']) != want6:
                out.viol('wrong-value', "%s, the defaulted tables holding a None cell at %s: got keys %s values %s, expected keys %s values %s" % (
                    label, holes, list(r6['k']) if isinstance(r6, dictable) else r6, list(r6['data']) if isinstance(r6, dictable) else None, surviving, want6), generic=True, shared=False,
                    none_cell=True, **sig)
        except Exception as e:
            out.viol('perdictable-raised', "%s with a None cell in a defaulted table raised %s: %s" % (label, type(e).__name__, e), exc=type(e).__name__, generic=True, none_cell=True, **sig)
    # ---------------- the expiry given as ONE scalar for all rows (a past date, a future date, None) next to a table of previously computed values
    if data is None and surviving and tabs:
        for ename, ev, keeps in (('past', PAST, True), ('future', FUTURE, False), ('None', None, False)):
            out.sub()
            calls[:] = []
            kw7 = inputs()
            kw7['data'] = dictable({'k': list(surviving)[::-1], 'data': ['old:%s' % k for k in list(surviving)[::-1]]})
            kw7['expiry'] = ev
            try:
                r7 = perdictable(f, on='k', defaults=dict(defaults) if dfl else {})(**kw7)
                out.call()
                want7 = ['old:%s' % k if keeps else 'f(%s)' % ','.join([value_of(n, k) for n in names] + ['None'] * (4 - len(names))) for k in surviving]
                ncalls = 0 if keeps else len(surviving)
                if not isinstance(r7, dictable) or list(r7['k']) != surviving or list(r7['data']) != want7 or len(calls) != ncalls:
                    out.viol('wrong-value' if len(calls) == ncalls else 'wrong-call-count', "%s, data for every key and the scalar expiry %s: got keys %s values %s with %d calls of f, expected values %s with %d calls" % (
                        label, ename, list(r7['k']) if isinstance(r7, dictable) else r7, list(r7['data']) if isinstance(r7, dictable) else None, len(calls), want7, ncalls),
                        kept=keeps, kept_called=keeps and len(calls) > 0, scalar_expiry=ename, **sig)
            except Exception as e:
                out.viol('perdictable-raised', "%s with the scalar expiry %s raised %s: %s" % (label, ename, type(e).__name__, e), exc=type(e).__name__, scalar_expiry=ename, **sig)
    # ---------------- renames: the value of an input lives in ANOTHER column of its table (a stale column named after the parameter sits next to it, before or after)
    if data is None and surviving and tabs:
        out.sub()
        calls[:] = []

        def rtable(n, ks):
            ks = list(ks)[::-1]
            cols7 = {'k': ks, 'p_' + n: ['%s:%s' % (n, k) for k in ks], n: ['stale:%s' % k for k in ks]}
            if names.index(n) % 2:
                cols7 = {c: cols7[c] for c in ('k', n, 'p_' + n)}
            return dictable(cols7)
        kw8 = {n: ('%s:*' % n if assign[n] == 'scalar' else rtable(n, assign[n])) for n in names}
        ren = {n: 'p_' + n for n in tabs}
        try:
            j8 = join(kw8, on='k', renames=dict(ren), defaults=dict(defaults))
            r8 = perdictable(f, on='k', renames=dict(ren), defaults=dict(defaults) if dfl else {})(**kw8)
            out.call(2)
            got8 = [{c: row[c] for c in ['k'] + names} for row in j8] if len(j8) else []
            want8 = [dict({'k': k}, **{n: value_of(n, k) for n in names}) for k in surviving]
            wantv = ['f(%s)' % ','.join([value_of(n, k) for n in names] + ['None'] * (4 - len(names))) for k in surviving]
            if got8 != want8:
                out.viol('join-wrong', 'join(%s, renames=%s) where every table also holds a stale column named after its parameter: rows %r, expected %r' % (label, ren, got8, want8), renames=True, **sig)
            elif not isinstance(r8, dictable) or list(r8['k']) != surviving or list(r8['data']) != wantv:
                out.viol('wrong-value', 'perdictable(f, on=k, renames=%s)(%s): got %r, expected keys %s values %s' % (ren, label, r8, surviving, wantv), generic=True, shared=False, renames=True, **sig)
        except Exception as e:
            out.viol('join-raised', 'join / perdictable(%s, renames=%s) raised %s: %s' % (label, ren, type(e).__name__, e), exc=type(e).__name__, renames=True, **sig)
    # ---------------- a custom output column (col='price') and a table of previously computed prices that covers only SOME keys: the cache never restricts the key set
    if data is None and surviving and tabs and len(surviving) >= 2:
        out.sub()
        calls[:] = []
        kw9 = inputs()
        kw9['price'] = dictable({'k': [surviving[0]], 'price': ['old:%s' % surviving[0]]})
        try:
            r9 = perdictable(f, on='k', col='price', defaults=dict(defaults) if dfl else {})(**kw9)
            out.call()
            want9 = ['f(%s)' % ','.join([value_of(n, k) for n in names] + ['None'] * (4 - len(names))) for k in surviving]
            if not isinstance(r9, dictable) or 'price' not in r9.keys() or list(r9['k']) != surviving or list(r9['price']) != want9 or len(calls) != len(surviving):
                out.viol('wrong-keys' if (isinstance(r9, dictable) and list(r9.get('k', [])) != surviving) else 'wrong-value',
                         "%s with col='price' and a price table over %s only: got %r with %d calls of f, expected keys %s values %s" % (label, surviving[:1], r9, len(calls), surviving, want9),
                         missing=True, extra=False, order_only=False, custom_col=True, **sig)
        except Exception as e:
            out.viol('perdictable-raised', "%s with col='price' and a partial price table raised %s: %s" % (label, type(e).__name__, e), exc=type(e).__name__, custom_col=True, **sig)
    # ---------------- no table at all, but a value that is a list / tuple / range / empty list: it is a VALUE (f gets it whole, once), not a column
    if data is None and not tabs and not dfl:
        for vname, v in (('[5]', [5]), ('[]', []), ('[1, 2, 3]', [1, 2, 3]), ("('T',)", ('T',)), ('range(2)', range(2))):
            for onv in ('k', None):
                out.sub()
                calls[:] = []
                kw3 = dict(inputs())
                kw3[names[0]] = v
                try:
                    r3 = perdictable(f, on=onv)(**kw3)
                    out.call()
                    want3 = 'f(%s)' % ','.join([str(v)] + ['%s:*' % n for n in names[1:]] + ['None'] * (4 - len(names)))
                    if r3 != want3 or len(calls) != 1:
                        out.viol('scalar-call-wrong', 'perdictable(f, on=%r)(%s=%s, other inputs scalars): expected f(...) = %r evaluated once, got %r with %d calls' % (
                            onv, names[0], vname, want3, r3, len(calls)), listvalue=True, **sig)
                except Exception as e:
                    out.viol('perdictable-raised', 'perdictable(f, on=%r)(%s=%s, other inputs scalars) raised %s: %s' % (onv, names[0], vname, type(e).__name__, e),
                             exc=type(e).__name__, listvalue=True, **sig)
    # ---------------- an EXPLICIT empty defaults={} on a function that has Python defaults of its own: nothing is outer-joined
    if data is None and len(tabs) >= 2:
        out.sub()
        last = [n for n in names if n in tabs][-1]
        src4 = 'def g(%s):\n    return _f(%s)\n' % (', '.join(n if n != last else "%s='%s:own'" % (n, n) for n in sorted(names, key=lambda n: n == last)),
                                                  ', '.join('%s=%s' % (n, n) for n in names))
        ns4 = {'_f': f2}
        exec(src4, ns4)
        s0 = set(keys)
        for n in tabs:
            s0 &= tabs[n]
        inner = [k for k in sorted(keys) if k in s0]
        calls[:] = []
        try:
            r4 = perdictable(ns4['g'], on='k', defaults={})(**inputs())
            out.call()
            got4 = list(r4['k']) if isinstance(r4, dictable) and len(r4) else []
            if got4 != inner:
                out.viol('wrong-keys', "%s: perdictable(g, on='k', defaults={}) where g has the Python default %s='..': result keys %s, expected the inner join %s (no input is named in defaults)" % (
                    label, last, got4, inner), missing=bool(set(inner) - set(got4)), extra=bool(set(got4) - set(inner)), order_only=sorted(got4) == sorted(inner), **sig)
        except Exception as e:
            out.viol('perdictable-raised', "%s: perdictable(g, on='k', defaults={}) raised %s: %s" % (label, type(e).__name__, e), exc=type(e).__name__, emptydefaults=True, **sig)
    # ---------------- join() directly
    if data is None and tabs:
        out.sub()
        try:
            j = join(inputs(), on='k', defaults=dict(defaults))
            out.call()
            got = [{c: row[c] for c in row} for row in j] if len(j) else []
            want = [dict({'k': k}, **{n: value_of(n, k) for n in names}) for k in surviving]
            if [sorted(r.items(), key=repr) for r in got] != [sorted(r.items(), key=repr) for r in want]:
                out.viol('join-wrong', 'join(%s) rows %r, expected %r' % (label, got, want), **sig)
        except Exception as e:
            out.viol('join-raised', 'join(%s) raised %s: %s' % (label, type(e).__name__, e), exc=type(e).__name__, **sig)
    return out


# ------------------------------------------------------------------------------------------------ two key columns

K2 = [['x', 1], ['x', 2], ['y', 1], ['y', 2]]


def gen_two():
    subs = subsets(range(4))
    for sa in subs:
        for sb in subs:
            for on in (['k', 'j'], ['j', 'k']):
                for dfl in ([], ['b']):
                    yield {'a': list(sa), 'b': list(sb), 'on': on, 'defaults': dfl}


def check_two(case):
    from pyg_base import perdictable, join, dictable
    out = Out()
    calls = []

    def f(a, b):
        calls.append((a, b))
        return 'f(%s,%s)' % (a, b)
    on = case['on']

    def table(n, idx, scramble):
        idx = list(idx)[::-1] if scramble else list(idx)
        return dictable(k=[K2[i][0] for i in idx], j=[K2[i][1] for i in idx], **{n: ['%s:%d' % (n, i) for i in idx]})
    dfl = {n: '%s:default' % n for n in case['defaults']}
    sa, sb = set(case['a']), set(case['b'])
    surv = sorted(sa & sb) if not dfl else sorted(sa)
    order = sorted(surv, key=lambda i: tuple(K2[i][0] if c == 'k' else K2[i][1] for c in on))
    label = 'a over %s, b over %s, on=%s, defaults=%s' % ([K2[i] for i in case['a']], [K2[i] for i in case['b']], on, list(dfl))
    sig = dict(on=''.join(on), defaults=bool(dfl))
    out.sub()
    try:
        res = perdictable(f, on=list(on), defaults=dict(dfl))(a=table('a', case['a'], True), b=table('b', case['b'], False))
        out.call()
    except Exception as e:
        out.viol('perdictable-raised', '%s raised %s: %s' % (label, type(e).__name__, e), exc=type(e).__name__, **sig)
        return out
    if not order:
        if calls:
            out.viol('called-without-key', '%s: no key survives but f was called' % label, **sig)
        out.cls('no-key')
        return out
    try:
        got = [(k, j) for k, j in zip(res['k'], res['j'])]
    except Exception:
        out.viol('result-shape', '%s: expected a table keyed by k, j; got %r' % (label, res), **sig)
        return out
    want = [tuple(K2[i]) for i in order]
    if got != want:
        out.viol('wrong-keys', '%s: result keys %s, expected %s (sorted by the key columns in the order given by on)' % (label, got, want),
                 order_only=sorted(got) == sorted(want), **sig)
    else:
        for i, v in zip(order, res['data']):
            w = 'f(a:%d,%s)' % (i, 'b:%d' % i if i in sb else 'b:default')
            if v != w:
                out.viol('wrong-value', '%s: value for key %s is %r, expected %r' % (label, K2[i], v, w), **sig)
                break
        if sorted(int(c[0].split(':')[1]) for c in calls) != sorted(order):
            out.viol('wrong-call-count', '%s: f evaluated for %s, expected once for each of %s' % (label, [c[0] for c in calls], order), **sig)
    if want != sorted(want) or len(order) < 4:
        out.nontrivial()
    out.cls('two-%s' % ''.join(on))
    return out


# ------------------------------------------------------------------------------------------------ two key columns, a table carrying only ONE of them

def gen_partial():
    subs = subsets(range(4))
    for on in (['k', 'j'], ['j', 'k']):
        for sa in subs:
            for col, vals in (('k', ['x', 'y']), ('j', [1, 2])):
                for sb in subsets(vals):
                    yield {'shape': 'full-partial', 'a': list(sa), 'col': col, 'b': list(sb), 'on': on}
        for sk in subsets(['x', 'y']):
            for sj in subsets([1, 2]):
                yield {'shape': 'cross', 'a': list(sk), 'b': list(sj), 'on': on}


def check_partial(case):
    """a table keyed by only some of the key columns is joined on the columns it has (each of its rows serves every key that agrees with it); the rows are
    the joined keys, once each, sorted by the key columns in the order of `on`"""
    from pyg_base import perdictable, join, dictable
    out = Out()
    calls = []

    def f(a, b):
        calls.append((a, b))
        return 'f(%s,%s)' % (a, b)
    on = case['on']
    if case['shape'] == 'full-partial':
        idx = list(case['a'])[::-1]
        ta = dictable(k=[K2[i][0] for i in idx], j=[K2[i][1] for i in idx], a=['a:%s%s' % tuple(K2[i]) for i in idx])
        col = case['col']
        tb = dictable(**{col: list(case['b']), 'b': ['b:%s' % v for v in case['b']]})
        rows = [(K2[i][0], K2[i][1], 'a:%s%s' % tuple(K2[i]), 'b:%s' % K2[i][0 if col == 'k' else 1]) for i in case['a'] if K2[i][0 if col == 'k' else 1] in case['b']]
    else:
        ks, js = list(case['a'])[::-1], list(case['b'])
        ta = dictable(k=ks, a=['a:%s' % v for v in ks])
        tb = dictable(j=js, b=['b:%s' % v for v in js])
        rows = [(k, j, 'a:%s' % k, 'b:%s' % j) for k in ks for j in js]
    rows = sorted(rows, key=lambda r: (r[0], r[1]) if on == ['k', 'j'] else (r[1], r[0]))
    label = '%s: a = %s, b = %s, on=%s' % (case['shape'], dict(ta), dict(tb), on)
    sig = dict(on=''.join(on), shape=case['shape'])
    for how in ('perdictable', 'join'):
        out.sub()
        del calls[:]
        try:
            if how == 'perdictable':
                res = perdictable(f, on=list(on))(a=ta, b=tb)
            else:
                res = join(dict(a=ta, b=tb), on=list(on))
            out.call()
        except Exception as e:
            out.viol('perdictable-raised', '%s through %s raised %s: %s' % (label, how, type(e).__name__, e), exc=type(e).__name__, how=how, **sig)
            continue
        if not rows:
            if calls:
                out.viol('called-without-key', '%s: no key survives but f was called' % label, how=how, **sig)
            out.cls('no-key')
            continue
        try:
            if how == 'perdictable':
                got = list(zip(res['k'], res['j'], res['data']))
                want = [(r[0], r[1], 'f(%s,%s)' % (r[2], r[3])) for r in rows]
            else:
                got = list(zip(res['k'], res['j'], res['a'], res['b']))
                want = list(rows)
        except Exception:
            out.viol('result-shape', '%s through %s: expected a table keyed by k, j; got %r' % (label, how, res), how=how, **sig)
            continue
        if got != want:
            out.viol('wrong-keys' if [g[:2] for g in got] != [w[:2] for w in want] else 'wrong-value', '%s through %s: rows %s, expected %s (sorted by the key columns in the order of on)' % (
                label, how, got, want), order_only=sorted(map(repr, got)) == sorted(map(repr, want)), how=how, **sig)
        elif how == 'perdictable' and sorted(calls) != sorted((r[2], r[3]) for r in rows):
            out.viol('wrong-call-count', '%s: f evaluated for %s, expected once for each of %s' % (label, calls, [(r[2], r[3]) for r in rows]), **sig)
        if [r[:2] for r in rows] != [r[:2] for r in sorted(rows)] or len(rows) > 1:
            out.nontrivial(how)
        out.cls('partial-%s-%s' % (case['shape'], ''.join(on)))
    return out


# ------------------------------------------------------------------------------------------------ a function with several NAMED outputs

def gen_named():
    keys = [1, 2, 3]
    for sa in subsets(keys):
        for sb in subsets(keys):
            for order in ('declared', 'reversed', 'extra-first'):
                for cached in (None, 'past', 'future', 'partial-past'):
                    yield {'a': list(sa), 'b': list(sb), 'order': order, 'cached': cached}


def check_named(case):
    """f declares output = ['s', 'p'] and returns a dict: each output is a table of its own, holding per key the entry of THAT NAME of f's dict (whatever
    order f filled its dict in); all-scalar calls return f's dict itself; a supplied earlier result with a past expiry is kept, f not called"""
    from pyg_base import perdictable, dictable
    out = Out()
    calls = []
    order = case['order']

    def f(a, b):
        calls.append((a, b))
        res = {}
        if order == 'extra-first':
            res['zextra'] = 'extra'
        for name in (['s', 'p'] if order == 'declared' else ['p', 's']):
            res[name] = '%s(%s,%s)' % (name, a, b)
        return res
    f.output = ['s', 'p']
    sa, sb = case['a'], case['b']
    ta = dictable(k=sa[::-1], a=['a:%d' % i for i in sa[::-1]])
    tb = dictable(k=sb, b=['b:%d' % i for i in sb])
    surv = sorted(set(sa) & set(sb))
    label = 'f with output=[s,p] filling its dict as %s; a over %s, b over %s, earlier result: %s' % (order, sa, sb, case['cached'])
    sig = dict(order=order, cached=str(case['cached']))
    out.sub()
    p = perdictable(f, on='k')
    try:
        r0 = p(a='A', b='B')
        out.call()
        if not isinstance(r0, dict) or r0.get('s') != 's(A,B)' or r0.get('p') != 'p(A,B)':
            out.viol('scalar-wrong', '%s: all-scalar call returned %r, expected f(...) itself' % (label, r0), **sig)
    except Exception as e:
        out.viol('perdictable-raised', '%s: all-scalar call raised %s: %s' % (label, type(e).__name__, e), exc=type(e).__name__, **sig)
    del calls[:]
    kw = {}
    kept = []
    if case['cached'] and surv:
        old = surv[:1] if len(surv) > 1 else surv
        kw = dict(s=dictable(k=old, s=['old s %d' % i for i in old]), p=dictable(k=old, p=['old p %d' % i for i in old]),
                  expiry=dictable(k=old, expiry=[PAST if case['cached'] in ('past', 'partial-past') else FUTURE for _ in old]))
        kept = old if case['cached'] == 'past' else []
        if case['cached'] == 'partial-past':
            del kw['p']          # only ONE of the two outputs was computed before: no previously computed value of f is supplied, every row is computed
    try:
        res = p(a=ta, b=tb, **kw)
        out.call()
    except Exception as e:
        out.viol('perdictable-raised', '%s raised %s: %s' % (label, type(e).__name__, e), exc=type(e).__name__, **sig)
        return out
    if not surv:
        if calls:
            out.viol('called-without-key', '%s: no key survives but f was called' % label, **sig)
        out.cls('no-key')
        return out
    try:
        got = {name: list(zip(res[name]['k'], res[name][name])) for name in ('s', 'p')}
    except Exception:
        out.viol('result-shape', '%s: expected a dict of the tables s and p keyed by k; got %r' % (label, res), **sig)
        return out
    want = {name: [(i, 'old %s %d' % (name, i) if i in kept else '%s(a:%d,b:%d)' % (name, i, i)) for i in surv] for name in ('s', 'p')}
    if got != want:
        out.viol('wrong-value' if {n: [g[0] for g in got[n]] for n in got} == {n: [g[0] for g in want[n]] for n in want} else 'wrong-keys',
                 '%s: outputs %s, expected %s' % (label, got, want), **sig)
    if sorted(calls) != sorted(('a:%d' % i, 'b:%d' % i) for i in surv if i not in kept):
        out.viol('wrong-call-count', '%s: f evaluated for %s, expected once for each of %s' % (label, calls, [i for i in surv if i not in kept]), **sig)
    out.nontrivial()
    out.cls('named-%s-%s' % (order, case['cached']))
    return out


# ------------------------------------------------------------------------------------------------ the earlier result hidden from f (output_is_input)

OII = [True, False, 'data', [], 'something_else', ['data']]


def gen_oii():
    keys = [1, 2, 3]
    for sd in subsets(keys):
        if not sd:
            continue
        for exp in itertools.product(('past', 'future', 'none'), repeat=len(sd)):
            for oi in range(len(OII)):
                yield {'data': list(sd), 'exp': list(exp), 'oii': oi}


def check_oii(case):
    """whether or not the earlier result is also handed to f as an input (output_is_input), a row whose earlier value comes with a past expiry keeps that value and
    f is not called for it; every other row is computed once"""
    from pyg_base import perdictable, dictable
    out = Out()
    calls = []

    def f(x, y):
        calls.append((x, y))
        return 'f(%s,%s)' % (x, y)
    oii = OII[case['oii']]
    keys = [1, 2, 3]
    x = dictable(k=keys[::-1], x=['x%d' % i for i in keys[::-1]])
    y = dictable(k=keys, y=['y%d' % i for i in keys])
    sd = case['data']
    data = dictable(k=sd, data=['old%d' % i for i in sd])
    expiry = dictable(k=sd, expiry=[{'past': PAST, 'future': FUTURE, 'none': None}[e] for e in case['exp']])
    kept = [i for i, e in zip(sd, case['exp']) if e == 'past']
    label = 'output_is_input=%r, earlier data for %s with expiry %s' % (oii, sd, case['exp'])
    sig = dict(oii=repr(oii), kept=bool(kept))
    out.sub()
    try:
        res = perdictable(f, on='k', output_is_input=oii)(x=x, y=y, data=data, expiry=expiry)
        out.call()
        got = list(zip(res['k'], res['data']))
    except Exception as e:
        out.viol('perdictable-raised', '%s raised %s: %s' % (label, type(e).__name__, e), exc=type(e).__name__, **sig)
        return out
    want = [(i, 'old%d' % i if i in kept else 'f(x%d,y%d)' % (i, i)) for i in keys]
    if got != want:
        out.viol('wrong-value' if [g[0] for g in got] == keys else 'wrong-keys', '%s: rows %s, expected %s' % (label, got, want), **sig)
    if sorted(calls) != sorted(('x%d' % i, 'y%d' % i) for i in keys if i not in kept):
        out.viol('wrong-call-count', '%s: f evaluated for %s, expected once for each key but %s' % (label, calls, kept), **sig)
    if kept:
        out.nontrivial()
    out.cls('oii-%s-%s' % (type(oii).__name__, 'kept' if kept else 'all-computed'))
    return out


def suites(tier, seed):
    q = tier == 'quick'
    S = []
    if q:
        S.append(Suite('one_key_2in', lambda: gen_one(['x', 'y'], 2, True), check_one,
                       rule='2 inputs, each a scalar or a table over any subset of {x,y} (rows scrambled) x defaults subsets x previously computed data over any '
                            'non-empty key subset x expiry per key in %s; non-trivial = a key is dropped by the join or kept from the data' % EXP, bounds=dict(keys=2, inputs=2)))
        S.append(Suite('one_key_3in', lambda: gen_one(['x', 'y', 'z'], 3, False), check_one,
                       rule='3 inputs over subsets of {x,y,z} x defaults subsets, no previous data', bounds=dict(keys=3, inputs=3)))
        S.append(Suite('one_key_1in', lambda: gen_one(['x', 'y', 'z'], 1, True), check_one, rule='1 input over subsets of {x,y,z} with data/expiry', bounds=dict(keys=3, inputs=1)))
    else:
        S.append(Suite('one_key_2in', lambda: gen_one(['x', 'y', 'z'], 2, True), check_one,
                       rule='2 inputs, each a scalar or a table over any subset of {x,y,z} x defaults subsets x data over any non-empty key subset x expiry per key in %s' % EXP,
                       bounds=dict(keys=3, inputs=2)))
        S.append(Suite('one_key_3in', lambda: gen_one(['x', 'y', 'z'], 3, True, data_mode='uniform'), check_one,
                       rule='3 inputs over subsets of {x,y,z} x defaults subsets x data subsets with one expiry kind for all keys', bounds=dict(keys=3, inputs=3)))
        S.append(Suite('one_key_4in', lambda: gen_one(['x', 'y'], 4, False), check_one, rule='4 inputs over subsets of {x,y} x defaults subsets', bounds=dict(keys=2, inputs=4)))
        S.append(Suite('one_key_1in', lambda: gen_one(['x', 'y', 'z'], 1, True), check_one, rule='1 input over subsets of {x,y,z} with data/expiry', bounds=dict(keys=3, inputs=1)))
    S.append(Suite('two_keys', gen_two, check_two,
                   rule='two key columns: a and b over every subset of {x,y}x{1,2}, on=[k,j] and on=[j,k], with and without a default for b; result sorted by the key '
                        'columns in the order given by on', bounds=dict(keys=4)))
    S.append(Suite('partial_keys', gen_partial, check_partial,
                   rule='two key columns, a over every subset of {x,y}x{1,2} and b keyed by ONE of the columns over every subset of its values, and the cross join of a '
                        'table per key column; on=[k,j] and [j,k]; through perdictable and join: the natural join, once per key, sorted in the order of on', bounds=dict(keys=4)))
    S.append(Suite('output_is_input', gen_oii, check_oii,
                   rule='output_is_input in %r x earlier data over every non-empty subset of 3 keys x expiry per key in past / future / None; two full inputs' % (OII,),
                   bounds=dict(keys=3)))
    S.append(Suite('named_outputs', gen_named, check_named,
                   rule='a function with output=[s,p] returning its dict in declared / reversed order / behind an extra entry; a, b over every subset of 3 keys; '
                        'no earlier result / one with a past / a future expiry for the first surviving key / an earlier result for ONE of the two outputs only', bounds=dict(keys=3, outputs=2)))
    return S
