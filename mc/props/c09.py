"""
C09 -- dt_bump adds business days, calendar units and compound tenors exactly (DESIGN.md section 4, C09).

Engine E2 read as a transition system: states = days (optionally with a time of day), edges = bumps.
Every edge of the real dt_bump is compared with the reference edge; path laws (composition of same-sign
business-day bumps, +x then -x) are checked on all length-2 paths inside the bound.

Reference model (never calls pyg_base, works on integer day numbers):
  * 'nb'      : from a weekend day step forward one day at a time to Monday; then step one day at a time,
                counting the days that are Mon-Fri, until |n| have been counted (n = 0: stay)
  * d/w/int/timedelta(days) : day number + n (7n for w);  h/n/s/timedelta : + exactly that many seconds
  * m/q/y at midnight : normalise (year, month + k) and keep the day of month when the target month has it,
                otherwise continue counting the excess days from the 1st of the following month
  * compound  : left-to-right fold of the above
The time of day is carried unchanged by every day-granular unit except m/q/y, which are only claimed at midnight.
"""
import calendar
import datetime
import functools
import itertools
import random
import numpy as np

from mc.engine import Suite, Out

PROPERTY = 'C09'
ASSUMPTIONS = [
    'month-based bumps (m/q/y) are checked from midnight only: with a time of day they reset it (statement: claimed at midnight only); '
    'compound tenors in which an m/q/y part meets a non-midnight intermediate time are skipped (outcome class compound-skipped-tod)',
    'dt(bump) / dt_bump relative to today is excluded (depends on the run date); every start time is an explicit datetime',
    'relativedelta bumps, time-zone bumps and NaT are excluded; of a timeseries start only the SET of timestamps of the result is compared with the bumped index entries (suite '
    'compound_intraday; how rows landing on one timestamp are aggregated is not part of the statement); tz-aware start times only for business-day and fixed-length tenors (suite '
    'compound_intraday): the count runs on the local date, the time of day and the zone are kept (m/q/y drop the zone like they drop the time of day)',
    "n = 0: '0b' from a weekday is taken to return t (it follows from the composition clause with a = 0) and from a weekend day the "
    'following Monday (the roll-forward clause); negative n from a weekend day count back from that Monday (the roll-forward clause)',
    "named tenors are checked as the business-day bumps the code documents: spot = 0b, on = o/n = 1b, tn = t/n = 2b, sn = s/n = 3b",
    'spellings: optional + sign, -0, upper / lower case unit letter; leading zeros, whitespace and unknown unit letters are not claimed',
    'monotonicity and landing on a weekday are claimed for b only (m/q/y are not monotone by design: 31 Jan + 1m > 1 Feb + 1m)',
    'at most 40 violations are recorded per case (one case = one month of start days); counting stops there, the verdict does not change',
]
EXPLANATION = ('states are days of the 400-year Gregorian cycle 1900-01-01..2299-12-31 (plus two intraday times on a 3-year window), edges are '
               'bumps; every edge of the implementation is compared with a day-by-day reference and the composition / inverse path laws are '
               'checked on length-2 paths')

# ------------------------------------------------------------------------------------------------
# reference tables (stdlib datetime only)

Y0, Y1 = 1830, 2372                     # table range: 1900 - 60y - slack .. 2299 + 60y + slack
NMAX = 60
ORD0 = datetime.date(Y0, 1, 1).toordinal()
_ND = datetime.date(Y1, 1, 1).toordinal() - ORD0
DAYS = [datetime.datetime.fromordinal(ORD0 + k) for k in range(_ND)]          # day number -> midnight
WD = [d.weekday() for d in DAYS]                                             # 0 = Monday .. 6 = Sunday
MSTART = []                                                                  # month number -> day number of the 1st
MLEN = []                                                                    # month number -> days in month
for _y in range(Y0, Y1):
    for _m in range(1, 13):
        MSTART.append(datetime.date(_y, _m, 1).toordinal() - ORD0)
        MLEN.append(calendar.monthrange(_y, _m)[1])
LEAPC = []                                                                   # number of 29 Febs with day number <= k
_c = 0
for _d in DAYS:
    if _d.month == 2 and _d.day == 29:
        _c += 1
    LEAPC.append(_c)
# self-checks of the tables (a failure here is a harness bug, never a finding)
assert all(WD[k + 1] == (WD[k] + 1) % 7 for k in range(_ND - 1)) and WD[datetime.date(2024, 1, 1).toordinal() - ORD0] == 0
assert all(MSTART[k + 1] - MSTART[k] == MLEN[k] for k in range(len(MSTART) - 1))
assert LEAPC[-1] == sum(1 for y in range(Y0, Y1) if calendar.isleap(y))

ZERO = datetime.timedelta(0)
SEC = {'h': 3600, 'n': 60, 's': 1}
MONTHS = {'m': 1, 'q': 3, 'y': 12}
STR_UNITS = ['b', 'd', 'w', 'm', 'q', 'y', 'h', 'n', 's']
OBJ_UNITS = ['int', 'td', 'tdx', 'npint']              # plain int, timedelta(days=n), a mixed timedelta, a numpy integer (np.int64 / np.int32 in turn)
ALL_UNITS = STR_UNITS + OBJ_UNITS
INTRADAY_UNITS = ['b', 'd', 'w', 'h', 'n', 's'] + OBJ_UNITS
FIXED_UNITS = {'d', 'w', 'h', 'n', 's', 'int', 'td', 'tdx', 'npint'}
NAMED = {'spot': 0, 'on': 1, 'o/n': 1, 'tn': 2, 't/n': 2, 'sn': 3, 's/n': 3}
NAMED_SPELLINGS = [(s, n) for k, n in sorted(NAMED.items()) for s in (k, k.upper())] + [('Spot', 0), ('Tn', 2)]

NS = {
    'quick': sorted(set(range(-12, 13)) | {-13, 13, -59, 59, -60, 60}),
    'full': list(range(-NMAX, NMAX + 1)),
}
BOUNDARY_YEARS = [1900, 1901, 1999, 2000, 2001, 2004, 2096, 2100, 2101, 2200, 2299]
CYCLE = (1900, 2300)
INTRADAY_WINDOW = (1999, 2002)
TODS = [[3, 4, 5, 6], [23, 59, 59, 0]]
COMPOUND_PARTS = [('y', 1), ('m', -3), ('d', 2), ('w', -1), ('b', 5), ('b', -2), ('h', 12)]
TENORS = [list(p) for k in (2, 3) for p in itertools.product(range(len(COMPOUND_PARTS)), repeat=k)]
CAP = 40


@functools.lru_cache(maxsize=8192)
def ref_b(i):
    """day numbers reached from day i by n business days, n = -NMAX..NMAX (index n + NMAX), by literal stepping"""
    start = i
    while WD[start] > 4:                 # from a weekend day first roll forward to Monday
        start += 1
    fwd = [start]
    cur = start
    for _ in range(NMAX):
        cur += 1
        while WD[cur] > 4:
            cur += 1
        fwd.append(cur)
    bwd = []
    cur = start
    for _ in range(NMAX):
        cur -= 1
        while WD[cur] > 4:
            cur -= 1
        bwd.append(cur)
    bwd.reverse()
    return tuple(bwd + fwd)


def ref_month(tm, dom):
    """day number of 'day dom of month number tm', rolling excess days into the following month"""
    n = MLEN[tm]
    if dom <= n:
        return MSTART[tm] + dom - 1
    return MSTART[tm + 1] + (dom - n) - 1


def tdx(n):
    return datetime.timedelta(days=n, seconds=7 * n, microseconds=n)


def expected(t, unit, ns):
    """reference results of bumping datetime t by n units for every n in ns -> (list of datetimes or None, day numbers or None)"""
    i = t.toordinal() - ORD0
    tod = t - DAYS[i]
    if unit == 'b':
        tab = ref_b(i)
        js = [tab[n + NMAX] for n in ns]
    elif unit in ('d', 'int', 'td', 'npint'):
        js = [i + n for n in ns]
    elif unit == 'w':
        js = [i + 7 * n for n in ns]
    elif unit in SEC:
        k = SEC[unit]
        return [t + datetime.timedelta(seconds=k * n) for n in ns], None
    elif unit == 'tdx':
        return [DAYS[i + n] + (tod + datetime.timedelta(microseconds=7000001 * n)) for n in ns], None
    elif unit in MONTHS:
        if tod:
            return [None] * len(ns), None           # statement silent: month-based bump with a time of day
        k = MONTHS[unit]
        tm0 = (t.year - Y0) * 12 + t.month - 1
        dom = t.day
        js = [ref_month(tm0 + k * n, dom) for n in ns]
    else:
        raise ValueError(unit)
    if tod:
        return [DAYS[j] + tod for j in js], js
    return [DAYS[j] for j in js], js


def spell(unit, n, style=0):
    s = ('%+d%s' if style & 1 else '%d%s') % (n, unit)
    return s.upper() if style & 2 else s


def arg(unit, n):
    if unit == 'int':
        return n
    if unit == 'npint':
        return np.int64(n) if n % 2 == 0 else np.int32(n)
    if unit == 'td':
        return datetime.timedelta(days=n)
    if unit == 'tdx':
        return tdx(n)
    return spell(unit, n)


@functools.lru_cache(maxsize=None)
def args_for(unit, nskey):
    return [arg(unit, n) for n in NS[nskey]]


@functools.lru_cache(maxsize=None)
def alts_for(unit, nskey):
    """alternative spellings: (index into ns, string)"""
    res = []
    for k, n in enumerate(NS[nskey]):
        styles = [2] if n < 0 else [1, 2, 3]
        for st in styles:
            res.append((k, spell(unit, n, st)))
        if n == 0:
            res.append((k, '-0' + unit))
            res.append((k, '-0' + unit.upper()))
    return res


BSTR = {n: '%db' % n for n in range(-2 * NMAX, 2 * NMAX + 1)}


class _Rec:
    """records at most CAP violations per case"""

    def __init__(self, out):
        self.out = out
        self.n = 0

    def __call__(self, kind, msg, **sig):
        self.n += 1
        if self.n <= CAP:
            self.out.viol(kind, msg, **sig)


def _sgn(n):
    return (n > 0) - (n < 0)


def _bsig(wd, n, **kw):
    return dict(unit='b', weekend=wd > 4, sign=_sgn(n), **kw)


# ------------------------------------------------------------------------------------------------
# grid: one case = one month of start days x every unit x every n (+ laws)

def check_grid(case):
    from pyg_base import dt_bump, dt
    out = Out()
    rec = _Rec(out)
    y, m, nskey, alt = case['y'], case['m'], case['ns'], case['alt']
    ns = NS[nskey]
    h, mi, s, us = case['tod']
    tod = datetime.timedelta(hours=h, minutes=mi, seconds=s, microseconds=us)
    units = INTRADAY_UNITS if tod else ALL_UNITS
    tm0 = (y - Y0) * 12 + m - 1
    i0, L = MSTART[tm0], MLEN[tm0]
    nt = set()
    ncall = nsub = 0
    prev = None                       # the previous day's implementation results for b
    for i in range(i0, i0 + L + 1):
        extra = i == i0 + L           # the 1st of the next month: only to close the monotone pair (last day, next day)
        t = DAYS[i] + tod if tod else DAYS[i]
        wd = WD[i]
        dom = i - i0 + 1
        li = LEAPC[i]
        leapstart = t.month == 2 and t.day == 29
        for unit in (['b'] if extra else units):
            args = args_for(unit, nskey)
            es, js = expected(t, unit, ns)
            rs = []
            for a, e, n in zip(args, es, ns):
                try:
                    r = dt_bump(t, a)
                except Exception as ex:
                    rec('raised', 'dt_bump(%r, %r) raised %s: %s; expected %s' % (t, a, type(ex).__name__, ex, e), unit=unit, sign=_sgn(n))
                    rs.append(None)
                    continue
                rs.append(r)
                if r != e:
                    if unit == 'b':
                        kind = 'b-lands-on-weekend' if isinstance(r, datetime.datetime) and r.weekday() > 4 else 'b-wrong-day'
                        rec(kind, 'dt_bump(%r [%s], %r): expected %s observed %s' % (t, 'Mon Tue Wed Thu Fri Sat Sun'.split()[wd], a, e, r),
                            **_bsig(wd, n, r=abs(n) % 5))
                    elif unit in MONTHS:
                        rec('month-wrong', 'dt_bump(%r, %r): expected %s observed %s' % (t, a, e, r), unit=unit, sign=_sgn(n),
                            roll=e.day != dom)
                    else:
                        rec('fixed-wrong', 'dt_bump(%r, %r): expected %s observed %s' % (t, a, e, r), unit=unit, sign=_sgn(n))
            ncall += len(ns)
            nsub += len(ns)
            # ---- outcome classes and the non-trivial rule
            if unit == 'b':
                out.cls('b-from-weekend' if wd > 4 else 'b-from-weekday')
            elif unit in MONTHS:
                out.cls('month-roll' if dom > 28 and any(DAYS[j].day != dom for j in js) else 'month-keep')
            else:
                out.cls('fixed-intraday' if tod else 'fixed')
            if js is not None:
                for n, j in zip(ns, js):
                    sg = '+' if n > 0 else '-' if n < 0 else '0'
                    if unit == 'b' and j - i != n:
                        nt.add('b|weekend|' + sg)
                    if n:
                        if j < i0 or j >= i0 + L:
                            nt.add(unit + '|month-end|' + sg)
                        if LEAPC[j] != li or leapstart:
                            nt.add(unit + '|leap-day|' + sg)
                        if unit in MONTHS and dom > 28 and DAYS[j].day != dom:
                            nt.add(unit + '|roll|' + sg)
            else:
                for n, e in zip(ns, es):
                    if n and e.day != t.day:
                        nt.add(unit + '|midnight|' + ('+' if n > 0 else '-'))
            # ---- monotone in t (b only), on the implementation's own results
            if unit == 'b':
                if prev is not None:
                    for n, p, r in zip(ns, prev, rs):
                        nsub += 1
                        if p is not None and r is not None and p > r:
                            rec('b-not-monotone', 'dt_bump(%r, %r) = %s but dt_bump(%r, %r) = %s' % (t - datetime.timedelta(1), BSTR[n], p, t, BSTR[n], r),
                                **_bsig(wd, n))
                prev = rs
            if extra:
                continue
            # ---- +x then -x returns to t
            if unit in FIXED_UNITS or (unit == 'b' and wd <= 4) or (unit in MONTHS and dom <= 28):
                out.cls('inverse')
                for a, r, e, n in zip(reversed(args), rs, es, ns):     # ns is symmetric: reversed(args) spells -n
                    if n == 0 or r is None or r != e:
                        continue
                    try:
                        back = dt_bump(r, a)
                    except Exception as ex:
                        rec('raised', 'dt_bump(%r, %r) raised %s: %s' % (r, a, type(ex).__name__, ex), unit=unit, sign=-_sgn(n), law='inverse')
                        continue
                    ncall += 1
                    nsub += 1
                    if back != t:
                        rec('inverse-broken', 'dt_bump(dt_bump(%r, %r), %r): expected %s observed %s (intermediate %s)' % (
                            t, arg(unit, n), a, t, back, r), unit=unit, sign=_sgn(n))
            # ---- same-sign composition and named tenors (b)
            if unit == 'b':
                tab = ref_b(i)
                if wd <= 4:
                    out.cls('compose')
                    R = dict(zip(ns, rs))
                    for sign in (1, -1):
                        for a in range(13):
                            for b in range(13):
                                for n in (sign * a, sign * (a + b)):
                                    if n not in R:
                                        e = DAYS[tab[n + NMAX]] + tod if tod else DAYS[tab[n + NMAX]]
                                        try:
                                            R[n] = dt_bump(t, BSTR[n])
                                        except Exception as ex:
                                            R[n] = None
                                            rec('raised', 'dt_bump(%r, %r) raised %s: %s' % (t, BSTR[n], type(ex).__name__, ex), unit='b', sign=sign)
                                            continue
                                        ncall += 1
                                        nsub += 1
                                        if R[n] != e:
                                            rec('b-wrong-day', 'dt_bump(%r, %r): expected %s observed %s' % (t, BSTR[n], e, R[n]),
                                                **_bsig(wd, n, r=abs(n) % 5))
                                u, w = R[sign * a], R[sign * (a + b)]
                                if u is None or w is None:
                                    continue
                                try:
                                    v = dt_bump(u, BSTR[sign * b])
                                except Exception as ex:
                                    rec('raised', 'dt_bump(%r, %r) raised %s: %s' % (u, BSTR[sign * b], type(ex).__name__, ex), unit='b', sign=sign,
                                        law='compose')
                                    continue
                                ncall += 1
                                nsub += 1
                                if v != w:
                                    rec('b-composition-broken', 'from %r: %r then %r gives %s but %r gives %s' % (
                                        t, BSTR[sign * a], BSTR[sign * b], v, BSTR[sign * (a + b)], w), **_bsig(wd, sign))
                out.cls('named')
                for sname, n in NAMED_SPELLINGS:
                    e = DAYS[tab[n + NMAX]] + tod if tod else DAYS[tab[n + NMAX]]
                    try:
                        r = dt_bump(t, sname)
                    except Exception as ex:
                        rec('raised', 'dt_bump(%r, %r) raised %s: %s; expected %s' % (t, sname, type(ex).__name__, ex, e), unit='named')
                        continue
                    ncall += 1
                    nsub += 1
                    if r != e:
                        rec('named-wrong', 'dt_bump(%r, %r) [= %db]: expected %s observed %s' % (t, sname, n, e, r), unit='named', name=sname.lower(),
                            weekend=wd > 4)
            # ---- other spellings of the same bump, and the dt(t, bump) entry point
            if alt and unit in STR_UNITS:
                out.cls('alt-spelling')
                for k, sp in alts_for(unit, nskey):
                    e = es[k]
                    try:
                        r = dt_bump(t, sp)
                    except Exception as ex:
                        rec('raised', 'dt_bump(%r, %r) raised %s: %s; expected %s' % (t, sp, type(ex).__name__, ex, e), unit=unit, via='spelling')
                        continue
                    ncall += 1
                    nsub += 1
                    if r != e:
                        rec('spelling-wrong', 'dt_bump(%r, %r): expected %s observed %s' % (t, sp, e, r), unit=unit, via='spelling',
                            plus='+' in sp, upper=sp != sp.lower())
                for a, e in zip(args, es):
                    try:
                        r = dt(t, a)
                    except Exception as ex:
                        rec('raised', 'dt(%r, %r) raised %s: %s; expected %s' % (t, a, type(ex).__name__, ex, e), unit=unit, via='dt')
                        continue
                    ncall += 1
                    nsub += 1
                    if r != e:
                        rec('dt-entry-wrong', 'dt(%r, %r): expected %s observed %s' % (t, a, e, r), unit=unit, via='dt')
    out.call(ncall)
    out.sub(nsub)
    out.states += L - 1
    for k in sorted(nt):
        out.nontrivial(k)
    return out


# ------------------------------------------------------------------------------------------------
# compound tenors: one case = one month of start days x every 2- and 3-part tenor

def fold(t, parts):
    """left-to-right fold of the single-part reference; None where the statement is silent"""
    cur = t
    for unit, n in parts:
        cur = expected(cur, unit, [n])[0][0]
        if cur is None:
            return None
    return cur


def check_compound(case):
    from pyg_base import dt_bump, dt
    out = Out()
    rec = _Rec(out)
    y, m = case['y'], case['m']
    tm0 = (y - Y0) * 12 + m - 1
    i0, L = MSTART[tm0], MLEN[tm0]
    ncall = nsub = 0
    nt = set()
    for i in range(i0, i0 + L):
        t = DAYS[i]
        for ti, tenor in enumerate(TENORS):
            parts = [COMPOUND_PARTS[k] for k in tenor]
            e = fold(t, parts)
            nsub += 1
            if e is None:
                out.cls('compound-skipped-tod')
                continue
            out.cls('compound')
            if fold(t, parts[::-1]) != e:
                nt.add(ti)                       # the order of the parts matters from this day
            s0 = ''.join(spell(u, n) for u, n in parts)
            s1 = ''.join(spell(u, n, 3) for u, n in parts)
            forms = [('dt_bump', s0, lambda: dt_bump(t, s0)), ('dt_bump', s1, lambda: dt_bump(t, s1)),
                     ('dt_bump*', [spell(u, n) for u, n in parts], lambda: dt_bump(t, *[spell(u, n) for u, n in parts])),
                     ('dt', s0, lambda: dt(t, s0))]
            # the parts handed over as ONE list object, twice: the second call must see the same (untouched) list
            plist = [spell(u, n) for u, n in parts]
            pcopy = list(plist)
            forms.append(('dt_bump[list]', pcopy, lambda: dt_bump(t, plist)))
            forms.append(('dt_bump[list] again', pcopy, lambda: dt_bump(t, plist) if plist == pcopy else 'the list of bumps was changed to %r' % (plist,)))
            for via, shown, f in forms:
                try:
                    r = f()
                except Exception as ex:
                    rec('raised', '%s(%r, %r) raised %s: %s; expected %s' % (via, t, shown, type(ex).__name__, ex, e), unit='compound', via=via)
                    continue
                ncall += 1
                if r != e:
                    rec('compound-wrong', '%s(%r, %r): expected %s (parts left to right) observed %s' % (via, t, shown, e, r),
                        unit='compound', via=via, parts=[COMPOUND_PARTS[k][0] for k in tenor])
    out.call(ncall)
    out.sub(nsub)
    out.states += L - 1
    for k in sorted(nt):
        out.nontrivial(k)
    return out


# ------------------------------------------------------------------------------------------------
# compound tenors from INTRADAY starts (fixed-length and business-day parts only), and the start written as a date / np.datetime64 / Timestamp

IPARTS = [('h', 3), ('h', -3), ('h', 30), ('n', 90), ('s', -7200), ('b', 1), ('b', -1), ('b', 2), ('d', 1), ('w', -1)]
ITENORS = [list(p) for k in (2, 3) for p in itertools.product(range(len(IPARTS)), repeat=k)
           if any(IPARTS[i][0] == 'b' for i in p) and any(IPARTS[i][0] in 'hns' for i in p)]
ITODS = [datetime.timedelta(hours=22), datetime.timedelta(hours=1, minutes=30), datetime.timedelta(hours=12, microseconds=5)]
DATE_TENORS = [[('h', 12), ('h', 12)], [('b', 1)], [('d', 2), ('b', -1)], [('h', 5)], [('m', 1), ('b', 1)], [('n', 90), ('b', 2)], [('w', 1)], [('y', 1), ('d', -1)]]


AWARE_ZONES = [datetime.timezone(datetime.timedelta(hours=-5)), datetime.timezone(datetime.timedelta(hours=9)), datetime.timezone.utc]
AWARE_TENORS = [[('b', n)] for n in (-2, -1, 0, 1, 3)] + [[('h', 3), ('b', 1)], [('b', -1), ('h', 30)], [('d', 1), ('b', 2)], [('n', 90)]]
NAMED_SEQS = [['spot', '1m'], ['on', '2d'], ['1d', 'tn', '1w'], ['SN', '-1b'], ['1m', 'spot'], ['o/n', 't/n'],
              # plain integers (days) among string bumps: applied in position, like every other bump
              ['1b', 1], ['1y', 1], [1, '1b'], ['1m', -2, '1b'], [2, '-1b', 3]]


def check_compound_intraday(case):
    import numpy as np
    import pandas as pd
    from pyg_base import dt_bump
    out = Out()
    rec = _Rec(out)
    y, m = case['y'], case['m']
    tm0 = (y - Y0) * 12 + m - 1
    i0, L = MSTART[tm0], MLEN[tm0]
    ncall = nsub = 0
    nt = set()
    for i in range(i0, i0 + L):
        for tod in ITODS:
            t = DAYS[i] + tod
            for ti, tenor in enumerate(ITENORS):
                parts = [IPARTS[k] for k in tenor]
                e = fold(t, parts)
                nsub += 1
                if e is None:
                    continue
                if fold(t, parts[::-1]) != e:
                    nt.add(ti)
                s0 = ''.join(spell(u, n) for u, n in parts)
                for via, f in (('dt_bump', lambda: dt_bump(t, s0)), ('dt_bump*', lambda: dt_bump(t, *[spell(u, n) for u, n in parts]))):
                    try:
                        r = f()
                    except Exception as ex:
                        rec('raised', '%s(%r, %r) raised %s: %s; expected %s' % (via, t, s0, type(ex).__name__, ex, e), unit='compound-intraday', via=via)
                        continue
                    ncall += 1
                    if r != e:
                        rec('compound-wrong', '%s(%r, %r): expected %s (parts left to right, each from the time reached so far) observed %s' % (via, t, s0, e, r),
                            unit='compound-intraday', via=via, parts=[IPARTS[k][0] for k in tenor])
        # ---- time-zone aware starts: business days are counted on the LOCAL date, the time of day and the zone are kept
        for tz in AWARE_ZONES:
            for tod in ITODS[:2]:
                tn_ = DAYS[i] + tod
                t = tn_.replace(tzinfo=tz)
                for parts in AWARE_TENORS:
                    e = fold(tn_, parts)
                    nsub += 1
                    if e is None:
                        continue
                    e = e.replace(tzinfo=tz)
                    s0 = ''.join(spell(u, n) for u, n in parts)
                    try:
                        r = dt_bump(t, s0)
                        ncall += 1
                    except Exception as ex:
                        rec('raised', 'dt_bump(%r, %r) raised %s: %s; expected %s' % (t, s0, type(ex).__name__, ex, e), unit='tz-aware', via='dt_bump')
                        continue
                    if not isinstance(r, datetime.datetime) or r.tzinfo is None or r != e or r.utcoffset() != e.utcoffset():
                        rec('compound-wrong', 'dt_bump(%r, %r): expected %s (counted on the local date, zone kept) observed %r' % (t, s0, e, r), unit='tz-aware', via='dt_bump',
                            parts=[u for u, _ in parts])
        # ---- named tenors as one of several bumps of one call (separate arguments / one list): every bump is applied, left to right
        t = DAYS[i]
        for seq in NAMED_SEQS:
            parts = [(('int', x) if isinstance(x, int) else ('b', NAMED[x.lower()]) if x.lower() in NAMED else (x[-1], int(x[:-1]))) for x in seq]
            e = fold(t, parts)
            if e is None:
                continue
            for via, f in (('dt_bump*', lambda: dt_bump(t, *seq)), ('dt_bump[list]', lambda: dt_bump(t, list(seq)))):
                nsub += 1
                try:
                    r = f()
                    ncall += 1
                except Exception as ex:
                    rec('raised', '%s(%r, %r) raised %s: %s; expected %s' % (via, t, seq, type(ex).__name__, ex, e), unit='named-in-sequence', via=via)
                    continue
                if r != e:
                    rec('compound-wrong', '%s(%r, %r): expected %s (every bump applied, left to right) observed %s' % (via, t, seq, e, r), unit='named-in-sequence', via=via,
                        parts=[u for u, _ in parts])
        # ---- the start day written as something else than a datetime
        t = DAYS[i]
        for parts in DATE_TENORS:
            e = fold(t, parts)
            if e is None:
                continue
            s0 = ''.join(spell(u, n) for u, n in parts)
            for sname, ts in (('date', t.date()), ('np.datetime64', np.datetime64(t)), ('Timestamp', pd.Timestamp(t)), ('yyyymmdd', int(t.strftime('%Y%m%d'))), ('iso', t.strftime('%Y-%m-%d'))):
                nsub += 1
                try:
                    r = dt_bump(ts, s0)
                    ncall += 1
                except Exception as ex:
                    rec('raised', 'dt_bump(%r, %r) raised %s: %s; expected %s' % (ts, s0, type(ex).__name__, ex, e), unit='start-spelling', via=sname)
                    continue
                if not isinstance(r, datetime.datetime) or r != e:
                    rec('compound-wrong', 'dt_bump(%r, %r): expected the datetime %s observed %r' % (ts, s0, e, r), unit='start-spelling', via=sname, parts=[u for u, _ in parts])
    # ---- a timeseries start (documented: its index is bumped element by element, rows landing on one timestamp are aggregated): the set of timestamps of the
    #      result is the set of the bumped index entries
    idx = [DAYS[i0 + j] for j in range(min(L, 11))]
    ser = pd.Series([float(j) for j in range(len(idx))], index=pd.DatetimeIndex(idx))
    for parts in DATE_TENORS + [[('b', 1), ('d', 1)], [('b', -1), ('h', -1)], [('m', 1), ('w', 1)]]:
        es = [fold(t_, parts) for t_ in idx]
        if any(e_ is None for e_ in es):
            continue
        s0 = ''.join(spell(u, n) for u, n in parts)
        nsub += 1
        try:
            rs = dt_bump(ser, s0)
            ncall += 1
            got_idx = [pd.Timestamp(x).to_pydatetime() for x in rs.index]
            if sorted(set(got_idx)) != sorted(set(es)) or len(got_idx) != len(set(es)):
                rec('compound-wrong', 'dt_bump(series over %s .. %s, %r): index %s, expected the bumped entries %s' % (idx[0].date(), idx[-1].date(), s0, [str(x)[:16] for x in got_idx],
                                                                                                                 [str(x)[:16] for x in sorted(set(es))]), unit='timeseries', via='dt_bump', parts=[u for u, _ in parts])
        except Exception as ex:
            rec('raised', 'dt_bump(series, %r) raised %s: %s' % (s0, type(ex).__name__, ex), unit='timeseries', via='dt_bump')
    out.call(ncall)
    out.sub(nsub)
    out.states += L - 1
    out.cls('compound-intraday:month-starts-on-%s' % ('weekend' if WD[i0] >= 5 else 'weekday'))
    for k in sorted(nt):
        out.nontrivial(k)
    return out


# ------------------------------------------------------------------------------------------------

def quick_years(seed):
    rest = [y for y in range(*CYCLE) if y not in BOUNDARY_YEARS]
    return sorted(BOUNDARY_YEARS + random.Random(int(seed)).sample(rest, 3))


def gen_grid(years, nskey, alt_years, tods):
    for y in years:
        for m in range(1, 13):
            for tod in tods:
                yield dict(y=y, m=m, ns=nskey, alt=y in alt_years, tod=tod)


def gen_compound(windows):
    for a, b in windows:
        for y in range(a, b):
            for m in range(1, 13):
                yield dict(y=y, m=m)


def suites(tier, seed):
    qy = quick_years(seed)
    nskey = 'quick' if tier == 'quick' else 'full'
    years = qy if tier == 'quick' else list(range(*CYCLE))
    windows = [(1999, 2002)] if tier == 'quick' else [(1999, 2002), (2023, 2026), (2099, 2102)]
    iw = list(range(*INTRADAY_WINDOW))
    ndesc = 'n in [-12,12] U {+-13,+-59,+-60}' if tier == 'quick' else 'every n in [-60,60]'
    laws = ('b: lands on a weekday, monotone on consecutive days, same-sign composition for all a,b in [0,12] and [-12,0] from every weekday, '
            'named tenors; +x then -x for fixed units, b from a weekday, m/q/y when day <= 28')
    return [
        Suite('grid', lambda: gen_grid(years, nskey, set(qy), [[0, 0, 0, 0]]), check_grid,
              rule='every day of %s x %s x units b,d,w,m,q,y,h,n,s,int,timedelta(days),mixed timedelta from midnight; %s; on the years %s also '
                   'the +/upper-case/-0 spellings and dt(t, bump). One case = one month of start days. Non-trivial = (month, unit, sign, reason) '
                   'groups with a bump crossing a weekend (b), a month end, a 29 Feb, midnight (h/n/s) or rolling a missing day of month (m/q/y)'
                   % ('the years %s' % years if tier == 'quick' else '1900-01-01..2299-12-31 (the whole 400-year cycle)', ndesc, laws, qy),
              bounds=dict(years=len(years), n=len(NS[nskey]), nmax=NMAX, units=len(ALL_UNITS), alt_years=qy)),
        Suite('intraday', lambda: gen_grid(iw, nskey, set(iw), TODS), check_grid,
              rule='every day of %d..%d x start times 03:04:05.000006 and 23:59:59 x %s x units b,d,w,h,n,s,int,timedeltas (b keeps the time of '
                   'day); %s; all spellings' % (iw[0], iw[-1], ndesc, laws),
              bounds=dict(years=len(iw), n=len(NS[nskey]), tods=len(TODS), units=len(INTRADAY_UNITS))),
        Suite('compound_intraday', lambda: gen_compound([(2000, 2001)] if tier == 'quick' else [(1999, 2002), (2024, 2025)]), check_compound_intraday,
              rule='every day of %s x start times 22:00, 01:30, 12:00:00.000005 x all %d two- and three-part tenors over %s holding a business-day part and an h/n/s part '
                   '(string and one-argument-per-part forms); every day as a midnight start written as date / np.datetime64 / Timestamp / yyyymmdd int / ISO string x %d tenors; '
                   'time-zone aware starts (UTC-5, UTC+9, UTC at 22:00 and 01:30 local) x business-day and fixed-length tenors; named tenors inside multi-bump calls; '
                   'non-trivial = tenors for which the order of the parts matters from some start' % (
                       'the year 2000' if tier == 'quick' else '1999-2001 and 2024', len(ITENORS), [spell(u, n) for u, n in IPARTS], len(DATE_TENORS)),
              bounds=dict(tenors=len(ITENORS), parts=len(IPARTS), start_times=len(ITODS))),
        Suite('compound', lambda: gen_compound(windows), check_compound,
              rule='every day of the windows %s x all %d two- and three-part concatenations over %s, in four forms (plain string, +/upper-case '
                   'string, one argument per part, dt(t, tenor)); non-trivial = (month, tenor) pairs with a start day from which folding the parts right to left gives another result'
                   % (windows, len(TENORS), [spell(u, n) for u, n in COMPOUND_PARTS]),
              bounds=dict(windows=windows, tenors=len(TENORS), parts=len(COMPOUND_PARTS))),
    ]
