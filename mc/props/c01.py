"""
C01 -- dictable is a rectangular list of records under any operation history (DESIGN.md section 4, C01).

Engine E1: explicit-state breadth-first search over histories of public table operations, run on real dictable
objects with a list-of-records model in lock-step.  A history keeps EVERY version it produced alive (the result of a
non-mutating operation becomes the current table, the previous one stays as an operand to be re-inspected), so aliasing
between an earlier and a later table shows up when a later operation writes.
"""
import datetime
import itertools
import json

from mc.engine import BfsSuite, Out
from mc.codec import show

PROPERTY = 'C01'
ASSUMPTIONS = [
    'column ORDER is not observed (dict_concat builds it from a set, it depends on PYTHONHASHSEED)',
    'cells are None, int, float, str, datetime; column names are a, b, c',
    'masks / integer lists of the wrong length, rename clashes, projection onto zero columns, and in-place mutation of a column list '
    'obtained through d[c] are outside the statement and never generated',
    'an operation that returns its operand itself (d + None, d + 0, concat of one table) creates no new version',
]

DT = datetime.datetime(2000, 1, 1)
VALS = [None, 1, 2.5, 'x', DT]
NAMES = ['a', 'b', 'c']


def code(v):
    for i, u in enumerate(VALS):
        if v is u or (v is not None and u is not None and type(v) is type(u) and v == u):
            return i
    return 'other:%r' % (v,)


def pat(n, r):
    return [VALS[(i + r) % 5] for i in range(n)]


# ------------------------------------------------------------------------------------------------ model

class Model:
    def __init__(self, cols, rows):
        self.cols = list(cols)
        self.rows = [dict(r) for r in rows]

    def copy(self):
        return Model(self.cols, self.rows)

    @property
    def n(self):
        return len(self.rows)

    def key(self):
        cs = sorted(self.cols)
        return [cs, [[code(r[c]) for c in cs] for r in self.rows]]

    @staticmethod
    def from_records(recs):
        cols = []
        for r in recs:
            for k in r:
                if k not in cols:
                    cols.append(k)
        return Model(cols, [{c: r.get(c) for c in cols} for r in recs])


class Misfit(Exception):
    pass


def m_set(m, k, val):
    """val: list (already normalised: scalar -> [scalar], None -> [None])"""
    m = m.copy()
    if not m.cols:
        m.cols = [k]
        m.rows = [{k: x} for x in val]
        return m
    if len(val) == m.n:
        pass
    elif len(val) == 1:
        val = val * m.n
    else:
        raise Misfit()
    if k not in m.cols:
        m.cols.append(k)
    for r, x in zip(m.rows, val):
        r[k] = x
    return m


def m_del(m, ks):
    m = m.copy()
    m.cols = [c for c in m.cols if c not in ks]
    m.rows = [{c: r[c] for c in m.cols} for r in m.rows] if m.cols else []
    return m


def m_concat(ms):
    cols = []
    for m in ms:
        for c in m.cols:
            if c not in cols:
                cols.append(c)
    rows = []
    for m in ms:
        for r in m.rows:
            rows.append({c: r.get(c) for c in cols})
    return Model(cols, rows)


# ------------------------------------------------------------------------------------------------ initial tables

def _inits():
    from pyg_base import dictable
    R3 = [dict(a=1, b=None), dict(a='x', b=2.5), dict(a=DT, b=1)]
    I = [
        ('empty()', lambda: dictable(), Model([], [])),
        ('empty([])', lambda: dictable([]), Model([], [])),
        ('records1', lambda: dictable([dict(a=1)]), Model(['a'], [dict(a=1)])),
        ('records1x2', lambda: dictable([dict(a=1, b='x')]), Model(['a', 'b'], [dict(a=1, b='x')])),
        ('records_ragged', lambda: dictable([dict(a=1), dict(b=2.5)]), Model.from_records([dict(a=1), dict(b=2.5)])),
        ('records3', lambda: dictable([dict(r) for r in R3]), Model.from_records(R3)),
        ('records_ragged3', lambda: dictable([dict(a=None, c='x'), dict(b=1), dict(a=2.5, b='x', c=DT)]),
         Model.from_records([dict(a=None, c='x'), dict(b=1), dict(a=2.5, b='x', c=DT)])),
        ('columns', lambda: dictable(a=[1, 'x'], b=[None, 2.5]), Model(['a', 'b'], [dict(a=1, b=None), dict(a='x', b=2.5)])),
        ('columns_dict', lambda: dictable(dict(a=[1, None, 'x'], b=[DT, 1, 1])), Model(['a', 'b'], [dict(a=1, b=DT), dict(a=None, b=1), dict(a='x', b=1)])),
        ('columns_tuple', lambda: dictable(a=(1, 2.5), b=[None, None]), Model(['a', 'b'], [dict(a=1, b=None), dict(a=2.5, b=None)])),
        ('one_column', lambda: dictable(a=[None, 'x', 1]), Model(['a'], [dict(a=None), dict(a='x'), dict(a=1)])),
        ('rows_headers', lambda: dictable([[1, 'x'], [None, 2.5]], ['a', 'b']), Model(['a', 'b'], [dict(a=1, b='x'), dict(a=None, b=2.5)])),
        ('rows_headers_1row', lambda: dictable([[1, 'x', DT]], ['a', 'b', 'c']), Model(['a', 'b', 'c'], [dict(a=1, b='x', c=DT)])),
        ('rows_headers_1col', lambda: dictable([[1], ['x'], [None]], ['a']), Model(['a'], [dict(a=1), dict(a='x'), dict(a=None)])),
        ('zero_rows_headers', lambda: dictable([], ['a', 'b']), Model(['a', 'b'], [])),
        ('zero_rows_columns', lambda: dictable(a=[], b=[]), Model(['a', 'b'], [])),
        ('zero_rows_plus_scalar', lambda: dictable(a=[], b=1), Model(['a', 'b'], [])),
        ('zero_rows_plus_none', lambda: dictable(dict(a=[], b=None)), Model(['a', 'b'], [])),
        ('zero_rows_plus_one', lambda: dictable(a=[], b=['x'], c=2.5), Model(['a', 'b', 'c'], [])),
        ('zero_rows_pairs', lambda: dictable([('a', []), ('b', 1)]), Model(['a', 'b'], [])),
        ('zero_row_table_plus_kw', lambda: dictable(dictable(a=[1, 'x'])[[False, False]], c=2.5), Model(['a', 'c'], [])),
        # a column literally called 'key' (the name under which a derived-column function is told WHICH column it computes): the row's own cell wins
        ('key_column', lambda: dictable(key=['x', 1], a=[1, None]), Model(['key', 'a'], [dict(key='x', a=1), dict(key=1, a=None)])),
        ('scalar_broadcast', lambda: dictable(a=[1, 'x', None], b='x'), Model(['a', 'b'], [dict(a=1, b='x'), dict(a='x', b='x'), dict(a=None, b='x')])),
        ('len1_broadcast', lambda: dictable(a=[1, 2.5], b=['x']), Model(['a', 'b'], [dict(a=1, b='x'), dict(a=2.5, b='x')])),
        ('none_broadcast', lambda: dictable(a=[1, 2.5], b=None), Model(['a', 'b'], [dict(a=1, b=None), dict(a=2.5, b=None)])),
        ('all_scalar', lambda: dictable(a=1, b='x'), Model(['a', 'b'], [dict(a=1, b='x')])),
        ('data_plus_kw', lambda: dictable([dict(a=1), dict(a=2.5)], c='x'), Model(['a', 'c'], [dict(a=1, c='x'), dict(a=2.5, c='x')])),
        ('from_table', lambda: dictable(dictable(a=[1, 'x'], b=[DT, None])), Model(['a', 'b'], [dict(a=1, b=DT), dict(a='x', b=None)])),
        ('zip_pairs', lambda: dictable([('a', [1, None]), ('b', ['x', 'x'])]), Model(['a', 'b'], [dict(a=1, b='x'), dict(a=None, b='x')])),
    ]
    # records with every key ORDER: each record is an ordered selection of keys from {a, b} (a, b, ab, ba); all lists of 1..2 such
    # records and the 3-record lists that mix both orders -- the same key set in a different order must still land in the right columns
    shapes = [['a'], ['b'], ['a', 'b'], ['b', 'a']]
    cells = [1, 'x', None, 2.5, DT, 1]
    combos = [[s1] for s1 in shapes] + [[s1, s2] for s1 in shapes for s2 in shapes] + \
             [[['a', 'b'], ['b', 'a'], ['a', 'b']], [['b', 'a'], ['a', 'b'], ['b', 'a']], [['b', 'a'], ['b', 'a'], ['a', 'b']], [['a', 'b'], ['b'], ['b', 'a']]]
    for combo in combos:
        recs, v = [], 0
        for shp in combo:
            r = {}
            for k in shp:
                r[k] = cells[v % len(cells)]
                v += 1
            recs.append(r)
        name = 'records:' + '|'.join(''.join(shp) for shp in combo)
        I.append((name, (lambda recs=recs: dictable([dict(r) for r in recs])), Model.from_records(recs)))
    BAD = [
        ('mismatch_cols', lambda: dictable(a=[1, 2.5], b=[1, 2.5, 'x'])),
        ('mismatch_dict', lambda: dictable(dict(a=[1, 2.5, None], b=[1, 2.5])),),
        ('mismatch_kw', lambda: dictable([dict(a=1), dict(a=2.5), dict(a=None)], b=[1, 2.5])),
    ]
    return I, BAD


_CACHE = {}


def inits():
    if 'I' not in _CACHE:
        _CACHE['I'], _CACHE['BAD'] = _inits()
        _CACHE['byname'] = {n: (f, m) for n, f, m in _CACHE['I']}
    return _CACHE


# ------------------------------------------------------------------------------------------------ operations

SLICES = [[None, None, None], [1, None, None], [None, 1, None], [None, -1, None], [-1, None, None], [None, None, 2], [None, None, -1],
          [1, 2, None], [2, None, None], [0, 0, None], [None, None, -2], [None, 2, None], [-2, -1, None]]

F_DO = {
    'flipnone': lambda v: 1 if v is None else None,
    'ident': lambda v: v,
    'from_a': lambda v, a: a,
    # reads column a through an extra argument named after it: when a itself was transformed earlier in the same call, the CURRENT a must be seen
    'flip_of_a': lambda v, a: 1 if a is None else None,
    'same_as_a': lambda v, a: 1 if (v is None) == (a is None) else None,
}


def m_do(rows, funcs, keys):
    """sequential model of do: for each key, for each function, the column is recomputed from the current rows"""
    import inspect
    rows = [dict(r) for r in rows]
    for k in keys:
        for f in funcs:
            extra = list(inspect.signature(f).parameters)[1:]
            new = [f(r[k], **{e: r[e] for e in extra}) for r in rows]
            for r, v in zip(rows, new):
                r[k] = v
    return rows
F_DERIVE = {
    # functions that read NO column: a constant, and one that only takes `key` (the name of the column being computed)
    'c=const()': (dict(c=lambda: 1), [], lambda r: dict(r, c=1)),
    'b=key': (dict(b=lambda key: key), [], lambda r: dict(r, b=r.get('key', 'b') if 'key' in r else 'b')),      # (a column called key wins over the column's name)
    'c=(key,a)': (dict(c=lambda key, a: (key, a)), ['key', 'a'], lambda r: dict(r, c=(r['key'], r['a']))),
    'c=a': (dict(c=lambda a: a), ['a'], lambda r: dict(r, c=r['a'])),
    'b=a': (dict(b=lambda a: a), ['a'], lambda r: dict(r, b=r['a'])),
    'c=a|b': (dict(c=lambda a, b: b if a is None else a), ['a', 'b'], lambda r: dict(r, c=r['b'] if r['a'] is None else r['a'])),
    'a=b': (dict(a=lambda b: b), ['b'], lambda r: dict(r, a=r['b'])),
}
ROT = {'a': 'b', 'b': 'c', 'c': 'a'}


def operand_specs(cols):
    """(name, model, builder) of the tables / records a table with columns `cols` is concatenated with"""
    from pyg_base import dictable
    free = [c for c in NAMES if c not in cols]
    specs = [
        ('rec', Model.from_records([dict(a=1, c='x')]), lambda: dict(a=1, c='x')),
        ('recs', Model.from_records([dict(a=2.5), dict(b=None, c=DT)]), lambda: [dict(a=2.5), dict(b=None, c=DT)]),
        ('recs_perm', Model.from_records([dict(a=2.5, c=None), dict(c=DT, a='x')]), lambda: [dict(a=2.5, c=None), dict(c=DT, a='x')]),
        ('empty', Model([], []), lambda: dictable()),
    ]
    z = free[0] if free else 'a'
    specs.append(('zero_extra', Model([z], []), lambda z=z: dictable({z: []})))
    if free:
        d = free[-1]
        specs.append(('disjoint', Model([d], [{d: 'x'}, {d: 1}]), lambda d=d: dictable({d: ['x', 1]})))
    if cols:
        o = sorted(cols)[0]
        if free:
            e = free[0]
            specs.append(('overlap', Model([o, e], [{o: 1, e: None}, {o: None, e: 2.5}]), lambda o=o, e=e: dictable({o: [1, None], e: [None, 2.5]})))
        else:
            specs.append(('overlap', Model([o], [{o: 1}, {o: None}]), lambda o=o: dictable({o: [1, None]})))
    return specs


def enabled_ops(m, maxrows):
    n, cols = m.n, sorted(m.cols)
    ops = []
    # ---- mutating
    for k in NAMES:
        if k in cols or len(cols) < 3:
            for r in (0, 2):
                ops.append(['set', k, ['fit', r]])
            ops.append(['set', k, ['tuple', 1]])
            ops.append(['set', k, ['scalar', 3]])
            ops.append(['set', k, ['one', 1]])
            ops.append(['set', k, ['none']])
            if n >= 2 and k == 'a':
                ops.append(['set', k, ['strn']])
            if cols:
                if n >= 3:
                    ops.append(['set', k, ['short']])
                if n >= 1:
                    ops.append(['set', k, ['long']])
                ops.append(['set', k, ['empty']])
    ops.append(['setattr', 'a' if ('a' in cols or len(cols) < 3) else cols[0], ['fit', 3]])
    ops.append(['setattr', 'b' if ('b' in cols or len(cols) < 3) else cols[0], ['scalar', 2]])
    if n >= 2:
        ops.append(['setattr', 'b' if ('b' in cols or len(cols) < 3) else cols[0], ['strn']])
    for k in cols:
        ops.append(['del', k])
    if cols:
        ops.append(['delattr', cols[-1]])
    if len(cols) <= 1 or set(cols) >= {'a', 'b'}:
        ops.append(['update', {'a': ['fit', 1], 'b': ['scalar', 0]}])
    # ---- non-mutating
    if cols:
        seen = set()
        for s in SLICES:
            idx = tuple(range(n)[slice(*s)])
            if idx in seen and s != [None, None, None]:
                continue                          # another slice with the same row selection is already in the menu
            seen.add(idx)
            ops.append(['slice'] + s)
        for bits in itertools.product([0, 1], repeat=n):
            ops.append(['mask', list(bits)])
        ops.append(['ints', []])
        if n:
            ops.append(['mask_np', [i % 2 for i in range(n)]])
            ops.append(['mask_np', [0] * n])
            ops.append(['ints_range', 0, n, 2])
            ops.append(['ints_range', 0, n, 1])
            ops.append(['ints_np', [n - 1, 0]])
            for il in ([0], [n - 1], [0, 0], [n - 1, 0], [-1], [-1, 0], [0, 1][:n]):
                ops.append(['ints', il])
            if n >= 2:
                ops.append(['ints', [-2, -1]])               # consecutive ascending positions that END at -1 (a slice a:b+1 would stop at 0)
                ops.append(['ints', [1, 0]])
            if n >= 3:
                ops.append(['ints', [-3, -2, -1]])
                ops.append(['ints', [-2, -1, 0]])
        for k in range(1, len(cols) + 1):
            for sub in itertools.combinations(cols, k):
                ops.append(['proj', list(sub)])
                ops.append(['and', list(sub) + ['z']])
        for name, (_, need, _) in sorted(F_DERIVE.items()):
            if all(c in cols for c in need) and (name.split('=')[0] in cols or len(cols) < 3):
                ops.append(['derive', name])
        ops.append(['const', 'b' if ('b' in cols or len(cols) < 3) else cols[0], 1])
        if n >= 2:
            ops.append(['const_strn', 'b' if ('b' in cols or len(cols) < 3) else cols[0]])
        if 'a' in cols and 'c' not in cols:
            ops.append(['rename', 'a2c'])
        ops.append(['rename', 'rot'])
        if 'a' in cols and 'b' in cols:
            ops.append(['rename', 'swap_ab'])
        ops.append(['rename', 'prefix_roundtrip'])
        ops.append(['do', 'flipnone', [cols[0]]])
        ops.append(['do', 'flipnone', []])
        ops.append(['do', 'ident', cols])
        if 'a' in cols and len(cols) > 1:
            ops.append(['do', 'from_a', [c for c in cols if c != 'a'][:1]])
            ops.append(['do', 'flip_of_a', ['a'] + [c for c in cols if c != 'a'][:1]])       # a is transformed first, the next key must read the NEW a
            ops.append(['do', 'flip_of_a', [c for c in cols if c != 'a'][:1] + ['a']])
        if 'a' in cols:
            ops.append(['do', ['flipnone', 'same_as_a'], ['a']])                               # chained functions on one key, the second naming that key
        for k in cols:
            ops.append(['sub', [k]])
        ops.append(['sub', cols[:2]])
        ops.append(['sub', ['z']])
        ops.append(['inc_kw_none', cols[0]])
        if n and len(cols) >= 2:
            ops.append(['exc_dict_kw'])
            ops.append(['inc_dict_kw'])
        if 'a' in cols and 'b' in cols:
            ops.append(['derive2'])
    ops.append(['copy'])
    ops.append(['inc0'])
    ops.append(['exc0'])
    ops.append(['inc_none'])
    ops.append(['exc_all'])
    ops.append(['empty_again'])
    ops.append(['add', 'self'])
    for name, _, _ in operand_specs(cols):
        ops.append(['add', name])
    ops.append(['add', 'None'])
    ops.append(['add', '0'])
    ops.append(['iadd', 'self'])                       # d += x is d = d + x: a NEW table, d (and whatever shares lists with it) stays what it was
    for name, _, _ in operand_specs(cols)[:3]:
        ops.append(['iadd', name])
    ops.append(['radd0'])
    ops.append(['concat', ['rec', 'recs']])
    ops.append(['concat', ['self', 'empty']])
    ops.append(['concat1'])
    return ops


def _vlist(spec, n):
    """-> (python value handed to the implementation, normalised list for the model)"""
    t = spec[0]
    if t == 'fit':
        v = pat(n, spec[1])
        return v, list(v)
    if t == 'tuple':
        v = tuple(pat(n, spec[1]))
        return v, list(v)
    if t == 'scalar':
        return VALS[spec[1]], [VALS[spec[1]]]
    if t == 'one':
        return [VALS[spec[1]]], [VALS[spec[1]]]
    if t == 'none':
        return None, [None]
    if t == 'short':
        v = pat(n - 1, 0)
        return v, list(v)
    if t == 'long':
        v = pat(n + 1, 0)
        return v, list(v)
    if t == 'empty':
        return [], []
    if t == 'strn':
        v = 'xyzw'[:n]                      # a string SCALAR that happens to have as many characters as the table has rows
        return v, [v]
    raise ValueError(spec)


class Ver:
    """one version of the table inside a history"""
    __slots__ = ('t', 'm')

    def __init__(self, t, m):
        self.t, self.m = t, m


def apply_op(op, t, m):
    """apply op to the real table t (model m).
       returns (kind, result_table_or_None, new_model_or_None, extra_operands)
         kind 'mut'   : t was changed in place, new_model describes it
              'new'   : a new table was returned
              'same'  : the operand itself was returned
              'error' : the implementation raised; result = the exception
       The model part may raise Misfit (the model says: ValueError expected)."""
    from pyg_base import dictable
    o = op[0]
    n = m.n
    extra = []
    if o in ('set', 'setattr'):
        v, norm = _vlist(op[2], n)
        exp = None
        try:
            nm = m_set(m, op[1], norm)
        except Misfit:
            nm, exp = None, 'misfit'
        try:
            if o == 'set':
                t[op[1]] = v
            else:
                setattr(t, op[1], v)
        except Exception as e:
            return 'error', e, nm, exp, extra
        return 'mut', t, nm, exp, extra
    if o in ('del', 'delattr'):
        nm = m_del(m, [op[1]])
        try:
            if o == 'del':
                del t[op[1]]
            else:
                delattr(t, op[1])
        except Exception as e:
            return 'error', e, nm, None, extra
        return 'mut', t, nm, None, extra
    if o == 'update':
        nm = m
        arg = {}
        for k in sorted(op[1]):
            v, norm = _vlist(op[1][k], nm.n if nm.cols else n)
            nm = m_set(nm, k, norm)
            arg[k] = v
        try:
            t.update(arg)
        except Exception as e:
            return 'error', e, nm, None, extra
        return 'mut', t, nm, None, extra

    # ---------------- non mutating
    def ret(res, nm):
        # only operations documented to hand back their operand (d + None, d + 0, concat of a single table) may return it;
        # for every other operation a result that IS the operand is recorded as a new version, so a later write through it
        # is seen as a change of the operand
        if res is t and (o in ('radd0', 'concat1') or (o == 'add' and op[1] in ('None', '0'))):
            return 'same', res, nm, None, extra
        return 'new', res, nm, None, extra

    try:
        if o == 'slice':
            s = slice(*op[1:4])
            return ret(t[s], Model(m.cols, m.rows[s]))
        if o == 'mask':
            mask = [bool(b) for b in op[1]]
            return ret(t[mask], Model(m.cols, [r for r, b in zip(m.rows, mask) if b]))
        if o == 'ints':
            return ret(t[list(op[1])], Model(m.cols, [m.rows[i] for i in op[1]]))
        if o == 'mask_np':
            import numpy as np
            mask = [bool(b) for b in op[1]]
            return ret(t[np.array(mask, dtype=bool)], Model(m.cols, [r for r, b in zip(m.rows, mask) if b]))
        if o == 'ints_range':
            rg = range(op[1], op[2], op[3])
            return ret(t[rg], Model(m.cols, [m.rows[i] for i in rg]))
        if o == 'ints_np':
            import numpy as np
            return ret(t[np.array(op[1])], Model(m.cols, [m.rows[i] for i in op[1]]))
        if o == 'proj':
            return ret(t[list(op[1])], Model(op[1], [{c: r[c] for c in op[1]} for r in m.rows]))
        if o == 'and':
            keep = [c for c in m.cols if c in op[1]]
            return ret(t & list(op[1]), Model(keep, [{c: r[c] for c in keep} for r in m.rows]))
        if o == 'derive':
            kw, need, f = F_DERIVE[op[1]]
            newc = list(kw)[0]
            return ret(t(**kw), Model(m.cols + ([newc] if newc not in m.cols else []), [f(r) for r in m.rows]))
        if o == 'const':
            return ret(t(**{op[1]: VALS[op[2]]}), m_set(m, op[1], [VALS[op[2]]]))
        if o == 'const_strn':
            sv = 'xyzw'[:n]
            return ret(t(**{op[1]: sv}), m_set(m, op[1], [sv]))
        if o == 'rename':
            if op[1] == 'a2c':
                mp = lambda c: 'c' if c == 'a' else c
                res = t.rename(a='c')
            elif op[1] == 'rot':
                mp = lambda c: ROT.get(c, c)
                res = t.rename(lambda k: ROT.get(k, k))
            elif op[1] == 'swap_ab':
                mp = lambda c: {'a': 'b', 'b': 'a'}.get(c, c)
                res = t.rename(a='b', b='a')               # two cooperating renames in ONE call
            else:
                mp = lambda c: c
                mid = t.rename('p_')
                if sorted(mid.keys()) != sorted('p_' + c for c in m.cols):
                    raise AssertionError("rename('p_') gave columns %s" % list(mid.keys()))
                res = mid.relabel(lambda k: k[2:])
            return ret(res, Model([mp(c) for c in m.cols], [{mp(c): v for c, v in r.items()} for r in m.rows]))
        if o == 'do':
            names = op[1] if isinstance(op[1], list) else [op[1]]
            funcs = [F_DO[n_] for n_ in names]
            keys = list(op[2]) or list(m.cols)
            rows = m_do(m.rows, funcs, keys)
            farg = funcs if len(funcs) > 1 else funcs[0]
            res = t.do(farg, *op[2]) if len(op[2]) != 1 else t.do(farg, op[2][0])
            return ret(res, Model(m.cols, rows))
        if o == 'sub':
            arg = op[1][0] if len(op[1]) == 1 else list(op[1])
            return ret(t - arg, m_del(m, op[1]))
        if o == 'copy':
            return ret(t.copy(), m.copy())
        if o == 'inc0':
            return ret(t.inc(), m.copy())
        if o == 'exc0':
            return ret(t.exc(), m.copy())
        if o == 'inc_none':
            return ret(t.inc(lambda **kw: False), Model(m.cols, []))
        if o == 'exc_all':
            return ret(t.exc(lambda **kw: True), Model(m.cols, []))
        if o == 'empty_again':
            # two filters that select nothing: what the caller does to the first (empty) result must not show in the second
            e1 = t.exc(lambda **kw: True)
            e1['zz'] = []
            e2 = t.inc(lambda **kw: False) if n % 2 else t.exc(lambda **kw: True)
            return ret(e2, Model(m.cols, []))
        if o in ('exc_dict_kw', 'inc_dict_kw'):
            # a filter dict passed positionally TOGETHER with a keyword filter is one conjunction: the values of the first row in the first two columns
            c0, c1 = sorted(m.cols)[:2]
            v0, v1 = m.rows[0][c0], m.rows[0][c1]
            plainv = lambda v: isinstance(v, (int, str)) and not isinstance(v, bool)
            if not (plainv(v0) and plainv(v1)):
                return ret(t.copy(), m.copy())
            both = lambda r: type(r[c0]) is type(v0) and r[c0] == v0 and type(r[c1]) is type(v1) and r[c1] == v1
            if o == 'exc_dict_kw':
                return ret(t.exc({c0: v0}, **{c1: v1}), Model(m.cols, [r for r in m.rows if not both(r)]))
            return ret(t.inc({c0: v0}, **{c1: v1}), Model(m.cols, [r for r in m.rows if both(r)]))
        if o == 'derive2':
            # TWO functions in one call, the reader listed BEFORE the producer it depends on, the producer re-deriving a column that already exists
            newm = Model(m.cols + ([] if 'c' in m.cols else ['c']), [dict(r, b=('b', r['a']), c=('c', ('b', r['a']))) for r in m.rows])
            return ret(t(c=lambda b: ('c', b), b=lambda a: ('b', a)), newm)
        if o == 'inc_kw_none':
            return ret(t.inc(**{op[1]: ['__no_such_value__']}), Model(m.cols, []))
        if o == 'radd0':
            return ret(0 + t, m.copy())
        if o == 'concat1':
            return ret(dictable.concat(t), m.copy())
        if o in ('add', 'concat', 'iadd'):
            names = [op[1]] if o in ('add', 'iadd') else list(op[1])
            specs = {nm: (mm, b) for nm, mm, b in operand_specs(sorted(m.cols))}
            objs, models = [], []
            for nm_ in names:
                if nm_ == 'self':
                    objs.append(t); models.append(m)
                elif nm_ == 'None':
                    objs.append(None); models.append(None)
                elif nm_ == '0':
                    objs.append(0); models.append(None)
                else:
                    mm, b = specs[nm_]
                    ob = b()
                    objs.append(ob); models.append(mm)
                    extra.append((nm_, ob, mm))
            if o == 'iadd':
                import operator
                res = operator.iadd(t, objs[0])
                nm2 = m_concat([m, models[0]])
            elif o == 'add':
                res = t + objs[0]
                nm2 = m.copy() if models[0] is None else m_concat([m, models[0]])
            else:
                res = dictable.concat(t, *objs)
                nm2 = m_concat([m] + models)
            return ret(res, nm2)
    except Exception as e:
        return 'error', e, None, None, extra
    raise ValueError('unknown op %r' % (op,))


# ------------------------------------------------------------------------------------------------ checks

def table_problem(t, m):
    """None if the real table t is exactly the model m and is rectangular, else a description"""
    from pyg_base import dictable
    if not isinstance(t, dictable):
        return 'not a dictable: %s' % type(t).__name__
    try:
        keys = list(dict.keys(t))
        if sorted(keys) != sorted(m.cols):
            return 'columns %s, model has %s' % (sorted(keys), sorted(m.cols))
        for k in keys:
            col = dict.__getitem__(t, k)
            if type(col) is not list:
                return 'column %s is stored as %s' % (k, type(col).__name__)
            if len(col) != m.n:
                return 'column %s has length %d, model has %d rows (lengths %s)' % (k, len(col), m.n, {c: len(dict.__getitem__(t, c)) for c in keys})
        if len(t) != m.n:
            return 'len() = %r, model has %d rows' % (len(t), m.n)
        if tuple(t.shape) != (m.n, len(m.cols)):
            return 'shape = %r, model has %r' % (t.shape, (m.n, len(m.cols)))
        rows = list(t)
        if len(rows) != m.n:
            return 'iteration yields %d rows, model has %d' % (len(rows), m.n)
        for i, (r, e) in enumerate(zip(rows, m.rows)):
            if set(r.keys()) != set(e.keys()):
                return 'row %d has keys %s' % (i, sorted(r.keys()))
            for c in e:
                if code(r[c]) != code(e[c]):
                    return 'row %d column %s is %r, model has %r' % (i, c, r[c], e[c])
                if code(t[c][i]) != code(e[c]) or code(t[i][c]) != code(e[c]):
                    return 'd[%r][%d] = %r, d[%d][%r] = %r, model has %r' % (c, i, t[c][i], i, c, t[i][c], e[c])
        if m.n:
            last = t[-1]
            if any(code(last[c]) != code(m.rows[-1][c]) for c in m.cols):
                return 'd[-1] = %r, model has %r' % (dict(last), m.rows[-1])
        if len(m.cols) >= 2:
            c1, c2 = sorted(m.cols)[:2]
            tup = t[c1, c2]
            if [(code(a), code(b)) for a, b in tup] != [(code(r[c1]), code(r[c2])) for r in m.rows]:
                return 'd[%r, %r] = %r' % (c1, c2, tup)
        if m.cols:
            c1 = sorted(m.cols)[0]
            ap = t[eval('lambda %s: (%s,)' % (c1, c1))]
            if [code(x[0]) for x in ap] != [code(r[c1]) for r in m.rows]:
                return 'd[lambda %s: ...] = %r' % (c1, ap)
    except Exception as e:
        return 'inspecting the table raised %s: %s' % (type(e).__name__, e)
    return None


def fingerprint(vers):
    t = vers[-1].t
    ids = {}
    older = set()
    for v in vers[:-1]:
        for k in dict.keys(v.t):
            older.add(id(dict.__getitem__(v.t, k)))
    # hidden structure that can make futures differ although the rows agree: the current table being the very object an
    # earlier version is, column containers shared among columns or with earlier versions, container types
    fp = [any(v.t is t for v in vers[:-1])]
    for k in sorted(dict.keys(t)):
        col = dict.__getitem__(t, k)
        cls = ids.setdefault(id(col), len(ids))
        fp.append([k, type(col).__name__, cls, id(col) in older])
    return fp


class C01(BfsSuite):
    def __init__(self, depth, maxrows):
        BfsSuite.__init__(self, 'history_bfs', depth,
                          rule='BFS over histories of public dictable operations from %d constructions; a state is (rows, columns, container/aliasing '
                               'fingerprint); every transition is compared with a list-of-records model, every version produced earlier in the history '
                               'is re-inspected; non-trivial = the transition changes rows or columns or raises' % len(inits()['I']),
                          bounds=dict(max_rows=maxrows, max_cols=3, cell_values=len(VALS)))
        self.maxrows = maxrows
        self.crosscheck_depth = 1

    def initial(self):
        return [[['init', n]] for n, _, _ in inits()['I']] + [[['bad_init', n]] for n, _ in inits()['BAD']]

    # replay a history; returns (versions, out, lastinfo)
    def _run(self, history, check_last):
        out = Out()
        I = inits()
        vers = []
        for step, op in enumerate(history):
            last = check_last and step == len(history) - 1
            if op[0] == 'bad_init':
                f = dict(I['BAD'])[op[1]]
                try:
                    t = f()
                    out.call()
                    out.viol('constructor-accepts-misfit', '%s built %r instead of raising ValueError' % (op[1], dict(t)), init=op[1])
                except ValueError:
                    out.call()
                    out.cls('ctor-ValueError')
                    out.nontrivial()
                except Exception as e:
                    out.viol('constructor-wrong-exception', '%s raised %s: %s' % (op[1], type(e).__name__, e), init=op[1])
                return None, out, None
            if op[0] == 'init':
                f, m = I['byname'][op[1]]
                try:
                    t = f()
                    out.call()
                except Exception as e:
                    out.viol('constructor-raised', '%s raised %s: %s' % (op[1], type(e).__name__, e), init=op[1])
                    return None, out, None
                vers.append(Ver(t, m.copy()))
                if last:
                    p = table_problem(t, m)
                    if p:
                        out.viol('constructor-wrong', '%s: %s' % (op[1], p), init=op[1])
                        return None, out, None
                    out.cls('ctor')
                    out.nontrivial()
                continue
            cur = vers[-1]
            before = cur.m
            kind, res, nm, exp, extra = apply_op(op, cur.t, cur.m)
            if last:
                out.call()
            sig = dict(op=op[0], arg=json.dumps(op[1:])[:60])
            if kind == 'error':
                if exp == 'misfit' and isinstance(res, ValueError):
                    # rejected as it must be: the table must be unchanged and rectangular
                    if last:
                        p = table_problem(cur.t, before)
                        if p:
                            out.viol('table-changed-by-rejected-assignment', 'after the rejected %s: %s' % (op, p), **sig)
                            return None, out, None
                        out.cls('rejected')
                        out.nontrivial()
                    continue
                if last:
                    out.viol('op-raised', 'history %s: %s raised %s: %s' % (show(history[:-1], 400), op, type(res).__name__, res), exc=type(res).__name__, **sig)
                return None, out, None
            if exp == 'misfit':
                if last:
                    out.viol('misfit-accepted', 'history %s: %s was accepted although the length does not fit (%d rows): now %s' % (
                        show(history[:-1], 400), op, before.n, {k: dict.__getitem__(cur.t, k) for k in dict.keys(cur.t)}), **sig)
                return None, out, None
            if kind == 'mut':
                cur.m = nm
            elif kind == 'new':
                vers.append(Ver(res, nm))
            else:   # 'same'
                cur.m = nm
            if last:
                # (1)+(2) the result is the model and rectangular
                p = table_problem(vers[-1].t, vers[-1].m)
                if p:
                    out.viol('result-differs-from-model', 'history %s then %s: %s' % (show(history[:-1], 400), op, p), **sig)
                    return None, out, None
                # (3) every earlier version and every operand is untouched
                for i, v in enumerate(vers[:-1]):
                    p = table_problem(v.t, v.m)
                    if p:
                        out.viol('operand-changed', 'history %s then %s: version %d of the table changed: %s' % (show(history[:-1], 400), op, i, p), **sig)
                        return None, out, None
                for nm_, ob, mm in extra:
                    from pyg_base import dictable
                    if isinstance(ob, dictable):
                        p = table_problem(ob, mm)
                    elif isinstance(ob, dict):
                        p = None if ob == mm.rows[0] or {c: ob.get(c) for c in mm.cols} == mm.rows[0] else 'record operand changed: %r' % ob
                    else:
                        p = None if [{c: r.get(c) for c in mm.cols} for r in ob] == mm.rows else 'records operand changed: %r' % ob
                    if p:
                        out.viol('operand-changed', 'history %s then %s: operand %s changed: %s' % (show(history[:-1], 400), op, nm_, p), **sig)
                        return None, out, None
                # (5) differential: the same op on a freshly built table with the same rows
                if kind in ('new', 'mut') and before.cols:
                    from pyg_base import dictable
                    fresh = dictable([dict(r) for r in before.rows]) if before.n else dictable([], list(before.cols))
                    k2, r2, nm2, e2, _ = apply_op(op, fresh, before)
                    if k2 == 'error':
                        out.viol('differential', 'history %s: %s works on the history-built table but raises %s on an equal fresh table' % (
                            show(history[:-1], 400), op, r2), **sig)
                    else:
                        p = table_problem(r2 if k2 != 'mut' else fresh, nm2)
                        if p:
                            out.viol('differential', 'history %s: %s on an equal fresh table: %s' % (show(history[:-1], 400), op, p), **sig)
                changed = vers[-1].m.key() != before.key()
                if changed:
                    out.nontrivial()
                out.cls('%s:%s' % (kind, 'changed' if changed else 'same'))
        return vers, out, None

    def visit(self, history):
        vers, out, _ = self._run(history, True)
        if vers is None or out.v:
            return out, None, False
        m = vers[-1].m
        key = json.dumps([m.key(), fingerprint(vers)])
        expandable = m.n <= self.maxrows and len(m.cols) <= 3
        return out, key, expandable

    def ops(self, history):
        vers, out, _ = self._run(history, False)
        if vers is None:
            return []
        return enabled_ops(vers[-1].m, self.maxrows)


def suites(tier, seed):
    if tier == 'quick':
        return [C01(depth=2, maxrows=3)]
    return [C01(depth=3, maxrows=4)]
