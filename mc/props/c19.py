"""
C19 -- container lifting maps leaf-wise, preserves shape, and is schedule independent (DESIGN.md section 4, C19).

E2 'loop'      every nested list/tuple/dict structure with <= N nodes x companion arguments (absent, scalar, same shape, a
               flat list of a foreign length, a dict with foreign keys) passed positionally and by keyword, through a generated
               f(x, y=0, z=0) lifted with loop(list, tuple, dict) and through the library's lifted text/number helpers.
E2 'zipper'    all argument tuples of <= 3 values for zipper / lens; as_list / as_tuple idempotence.
E3 'waiter'    structures with k awaitable leaves x EVERY completion order (k!) x {0,1,2} extra loop turns between completions, on a
               fresh real asyncio event loop whose only scheduler is the ready queue driven by harness-owned futures.
"""
import asyncio
import itertools
import json

from mc.engine import Suite, Out
from mc.codec import show

PROPERTY = 'C19'
ASSUMPTIONS = [
    'companion arguments whose inner lengths coincide with an outer container length are not generated (the code indexes into them; statement silent)',
    'first arguments are nested list/tuple/dict structures of scalars (pandas / numpy first arguments take other branches of loops)',
    'library helpers are compared leaf by leaf with the same helper applied to the bare leaf (the property is about lifting, not about what lower() does)',
    'awaitables neither raise nor are cancelled; an already completed future has no scheduling choice and takes no part in the permutation',
    'waiter runs have a horizon of 10*k+20 loop turns after the last completion; not finishing inside it is reported as deadlock',
]


# ------------------------------------------------------------------------------------------------ structures

def gen_structs(maxnodes):
    """all structures of the grammar  leaf | list[0..2] | tuple[0..2] | dict{a[,b]}  with at most maxnodes nodes.
       encoded as 'L' | ['list', ...] | ['tuple', ...] | ['dict', [k, child], ...]"""
    memo = {}

    def S(n):
        if n in memo:
            return memo[n]
        res = []
        if n >= 1:
            res.append('L')
            for kind in ('list', 'tuple'):
                res.append([kind])
                for c in S(n - 1):
                    res.append([kind, c])
                for n1 in range(1, n - 1):
                    for c1 in S(n1):
                        if size(c1) != n1:
                            continue
                        for c2 in S(n - 1 - n1):
                            res.append([kind, c1, c2])
            for c in S(n - 1):
                res.append(['dict', ['a', c]])
            for n1 in range(1, n - 1):
                for c1 in S(n1):
                    if size(c1) != n1:
                        continue
                    for c2 in S(n - 1 - n1):
                        res.append(['dict', ['a', c1], ['b', c2]])
                        res.append(['dict', ['b', c1], ['a', c2]])          # inserted b first: the result must keep the insertion order
        # dedupe
        seen, out = set(), []
        for r in res:
            k = json.dumps(r)
            if k not in seen:
                seen.add(k)
                out.append(r)
        memo[n] = out
        return out

    def size(s):
        if s == 'L':
            return 1
        if s[0] == 'dict':
            return 1 + sum(size(c) for _, c in s[1:])
        return 1 + sum(size(c) for c in s[1:])
    return [s for s in S(maxnodes) if s != 'L' or True]


def build(s, leaf, path=()):
    """materialise a structure; leaf(path) gives the leaf value"""
    if s == 'L':
        return leaf(path)
    if s[0] == 'list':
        return [build(c, leaf, path + (i,)) for i, c in enumerate(s[1:])]
    if s[0] == 'tuple':
        return tuple(build(c, leaf, path + (i,)) for i, c in enumerate(s[1:]))
    return {k: build(c, leaf, path + (k,)) for k, c in s[1:]}


def same_shape(s, res, f, path=()):
    """None if res has the shape / container types of s and every leaf satisfies f(path, value) -> problem or None"""
    if s == 'L':
        return f(path, res)
    if s[0] in ('list', 'tuple'):
        want = list if s[0] == 'list' else tuple
        if type(res) is not want or len(res) != len(s) - 1:
            return 'at %s: expected a %s of %d, got %r' % (list(path), want.__name__, len(s) - 1, res)
        for i, c in enumerate(s[1:]):
            p = same_shape(c, res[i], f, path + (i,))
            if p:
                return p
        return None
    if type(res) is not dict or list(res.keys()) != [k for k, _ in s[1:]]:
        return 'at %s: expected a dict with keys %s, got %r' % (list(path), [k for k, _ in s[1:]], res)
    for k, c in s[1:]:
        p = same_shape(c, res[k], f, path + (k,))
        if p:
            return p
    return None


def depth(s):
    if s == 'L':
        return 0
    kids = [c for _, c in s[1:]] if s[0] == 'dict' else s[1:]
    return 1 + max([depth(c) for c in kids], default=0)


def lens_in(s):
    if s == 'L':
        return set()
    kids = [c for _, c in s[1:]] if s[0] == 'dict' else s[1:]
    r = {len(kids)}
    for c in kids:
        r |= lens_in(c)
    return r


def _flip(s):
    if s == 'L':
        return s
    if s[0] == 'dict':
        return ['dict'] + [[k, _flip(c)] for k, c in s[1:]]
    return [{'list': 'tuple', 'tuple': 'list'}[s[0]]] + [_flip(c) for c in s[1:]]


def _reorder(s):
    """the same structure with every dict built in the opposite insertion order"""
    if s == 'L':
        return s
    if s[0] == 'dict':
        return ['dict'] + [[k, _reorder(c)] for k, c in s[1:]][::-1]
    return [s[0]] + [_reorder(c) for c in s[1:]]


def _as_dictattr(o):
    """the same structure with every dict turned into the library's own dictattr (whose keys() is a list-like, not a set-like view)"""
    from pyg_base import dictattr
    if isinstance(o, dict):
        return dictattr({k: _as_dictattr(v) for k, v in o.items()})
    if isinstance(o, (list, tuple)):
        return type(o)(_as_dictattr(v) for v in o)
    return o


COMP = ['absent', 'scalar', 'same', 'sameflip', 'samereordered', 'samedictattr', 'flat5', 'otherdict', 'partialdict', 'range7', 'keysview', 'otherDict']


def companion(kind, s, tag):
    if kind == 'scalar':
        return 7 if tag == 'y' else 'zz'
    if kind == 'same':
        return build(s, lambda p: tag + '/' + '/'.join(map(str, p)))
    if kind == 'sameflip':           # same lengths / keys, but every list is a tuple and every tuple a list: still matched element by element
        return build(_flip(s), lambda p: tag + '/' + '/'.join(map(str, p)))
    if kind == 'samedictattr':       # the same keys, the companion's dicts being dictattr objects: still matched by key
        return _as_dictattr(build(s, lambda p: tag + '/' + '/'.join(map(str, p))))
    if kind == 'samereordered':      # the same keys at every dict, inserted in the opposite order: dicts are matched by KEY
        return build(_reorder(s), lambda p: tag + '/' + '/'.join(map(str, p)))
    if kind == 'flat5':
        return [tag + str(i) for i in range(5)]
    if kind == 'otherdict':
        return {'q': tag, 'r': [tag]}
    if kind == 'otherDict':          # a mapping of a dict SUBCLASS with keys of its own: broadcast whole, as the object of the class it is
        from pyg_base import Dict
        return Dict(q=tag, r=Dict(w=tag))
    if kind == 'range7':             # neither a list, a tuple nor a dict, and of no container's length: broadcast whole
        return range(7)
    if kind == 'keysview':           # a dict view (three keys) is not a container to be matched either
        return {'q': 1, 'r': 2, 's': 3}.keys()
    if kind == 'partialdict':        # as many keys as a two-key dict of the first argument, one of them shared: NOT the same keys -> broadcast whole
        return {'a': tag + 'A', 'zz': tag + 'Z'}
    raise ValueError(kind)


def comp_at(kind, s, tag, path, default):
    if kind == 'absent':
        return default
    if kind in ('same', 'sameflip', 'samereordered', 'samedictattr'):
        return tag + '/' + '/'.join(map(str, path))
    return companion(kind, s, tag)


def check_loop(case):
    from pyg_base import loop
    import pyg_base as P
    out = Out()
    s = case['s']
    xleaf = lambda p: 'Ab ' + ''.join(map(str, p))
    f = loop(list, tuple, dict)(lambda x, y=0, z=0: (x, y, z))
    d = depth(s)
    label = 'structure %s' % show(build(s, xleaf), 200)
    for ky in COMP:
        for kz in (['absent', 'scalar', 'same'] if ky != 'absent' else ['absent']):
            passings = [('kw', 'kw')] if ky == 'absent' else [('pos', 'pos'), ('pos', 'kw'), ('kw', 'kw')]
            if kz == 'absent':
                passings = [('kw', 'kw')] if ky == 'absent' else [('pos', 'kw'), ('kw', 'kw')]
            for py, pz in passings:
                out.sub()
                x = build(s, xleaf)
                args, kw = [x], {}
                if ky != 'absent':
                    (args.append(companion(ky, s, 'y')) if py == 'pos' else kw.__setitem__('y', companion(ky, s, 'y')))
                if kz != 'absent':
                    (args.append(companion(kz, s, 'z')) if pz == 'pos' else kw.__setitem__('z', companion(kz, s, 'z')))
                sig = dict(y=ky, z=kz, passing=py + '/' + pz, depth=min(d, 3))
                try:
                    res = f(*args, **kw)
                    out.call()
                except Exception as e:
                    out.viol('loop-raised', 'f(%s, y=%s %s, z=%s %s) raised %s: %s' % (label, ky, py, kz, pz, type(e).__name__, e), exc=type(e).__name__, **sig)
                    continue

                def leaf_ok(path, v):
                    want = (xleaf(path), comp_at(ky, s, 'y', path, 0), comp_at(kz, s, 'z', path, 0))
                    ok_ = v == want and type(v) is tuple and all(type(a_) is type(b_) for a_, b_ in zip(v, want)) and \
                        all(type(a_.get('r')) is type(b_.get('r')) for a_, b_ in zip(v, want) if isinstance(b_, dict) and isinstance(a_, dict))
                    return None if ok_ else 'leaf at %s is %r (types %s), expected f applied to the leaf with its companions: %r (types %s)' % (
                        list(path), v, [type(a_).__name__ for a_ in v] if isinstance(v, tuple) else type(v).__name__, want, [type(b_).__name__ for b_ in want])
                p = same_shape(s, res, leaf_ok)
                if p:
                    out.viol('loop-wrong', 'f(%s, y=%s passed %s, z=%s passed %s): %s' % (label, ky, py, kz, pz, p), **sig)
                if d >= 2 and ky != 'absent':
                    out.nontrivial('%s/%s/%s' % (ky, kz, py + pz))
    # ---- a SECOND lifted lambda whose first parameter has another name, its first argument passed by keyword (both lambdas are called '<lambda>')
    out.sub()
    g = loop(list, tuple, dict)(lambda a, b=0: (a, b))
    for kyg in ('scalar', 'same'):
        try:
            resg = g(a=build(s, xleaf), b=companion(kyg, s, 'y'))
            out.call()
            pg = same_shape(s, resg, lambda path, v: None if v == (xleaf(path), comp_at(kyg, s, 'y', path, 0)) and type(v) is tuple else
                            'leaf at %s is %r, expected %r' % (list(path), v, (xleaf(path), comp_at(kyg, s, 'y', path, 0))))
            if pg:
                out.viol('loop-wrong', 'g = loop(..)(lambda a, b=0: (a, b)); g(a=%s, b=%s companion): %s' % (label, kyg, pg), y=kyg, z='absent', passing='kw/first', depth=min(d, 3))
        except Exception as e:
            out.viol('loop-raised', 'g(a=%s, b=%s companion) raised %s: %s' % (label, kyg, type(e).__name__, e), exc=type(e).__name__, y=kyg, z='absent', passing='kw/first', depth=min(d, 3))
    # ---- dict keys that are numbers whose order as text differs from their order as values ({9, 10}, {2, 10}, {0.5, 1e-07}): same-keys companions are matched by key
    if s == 'L' or (s[0] == 'dict' and len(s) == 3):
        for ks in ((9, 10), (2, 10), (0.5, 1e-07), (10, 9)):
            out.sub()
            xk = {k: 'x%r' % (k,) for k in ks}
            yk = {k: 'y%r' % (k,) for k in reversed(ks)}
            wantk = {k: ('x%r' % (k,), 'y%r' % (k,), 0) for k in ks}
            for how, call in (('pos', lambda: f(dict(xk), dict(yk))), ('kw', lambda: f(dict(xk), y=dict(yk)))):
                try:
                    rk = call()
                    out.call()
                    if type(rk) is not dict or rk != wantk:
                        out.viol('loop-wrong', 'f({%r: .., %r: ..}, a dict with the same keys, passed %s): got %r, expected %r' % (ks[0], ks[1], how, rk, wantk), y='same-numeric-keys', z='absent',
                                 passing=how, depth=1)
                except Exception as e:
                    out.viol('loop-raised', 'f(dict with keys %r, dict with the same keys) raised %s: %s' % (ks, type(e).__name__, e), exc=type(e).__name__, y='same-numeric-keys', z='absent',
                             passing=how, depth=1)
    # ---- the library's lifted helpers
    leaves = ['Ab cd ', ' xB', 3, 2.5, None, '1,200', 'b.b']
    lf = lambda p: leaves[(sum(ord(c) if isinstance(c, str) else c + 1 for c in p) + len(p)) % len(leaves)]
    helpers = [('lower', P.lower, ()), ('upper', P.upper, ()), ('strip', P.strip, ()), ('proper', P.proper, ()), ('f12', P.f12, ()), ('as_float', P.as_float, ()),
               ('capitalize', P.capitalize, ()), ('replace', P.replace, ('b', 'X')), ('split', P.split, (' ',)), ('replace-kw', lambda v: P.replace(v, old='B', new='y'), ())]
    for name, h, extra in helpers:
        out.sub()
        x = build(s, lf)
        try:
            res = h(x, *extra)
            out.call()
        except Exception as e:
            out.viol('helper-raised', '%s(%s) raised %s: %s' % (name, show(x, 200), type(e).__name__, e), helper=name)
            continue

        def leaf_ok(path, v, h=h, extra=extra, name=name):
            want = h(lf(path), *extra)
            ok = (v == want and type(v) is type(want)) or (v is None and want is None)
            return None if ok else 'leaf at %s is %r, %s of the bare leaf %r gives %r' % (list(path), v, name, lf(path), want)
        p = same_shape(s, res, leaf_ok)
        if p:
            out.viol('helper-wrong', '%s(%s): %s' % (name, show(x, 200), p), helper=name)
        if x != build(s, lf):
            out.viol('helper-mutates', '%s changed its argument' % name, helper=name)
    out.cls('depth%d' % min(d, 4))
    return out


# ------------------------------------------------------------------------------------------------ zipper, lens, as_list, as_tuple

ZVALS = ['scalar', 'None', '[]', '[1]', '[1,2]', '[1,2,3]', '(1,2)', "'ab'", 'range(2)', '(5,)', '([5,6],)', '[[5,6]]']      # the last two: ONE element, which is a list


def zval(n):
    return {'scalar': 7, 'None': None, '[]': [], '[1]': [1], '[1,2]': [1, 2], '[1,2,3]': [1, 2, 3], '(1,2)': (1, 2), "'ab'": 'ab', 'range(2)': range(2), '(5,)': (5,), '([5,6],)': ([5, 6],), '[[5,6]]': [[5, 6]]}[n]


def check_zip(case):
    from pyg_base import zipper, lens
    out = Out()
    names = case['args']
    vals = [zval(n) for n in names]
    seqs = [list(v) if isinstance(v, (list, tuple, range)) else [v] for v in vals]
    ls = set(len(q) for q in seqs) - {1}
    out.sub()
    try:
        res = list(zipper(*[zval(n) for n in names]))
        out.call()
        raised = None
    except ValueError as e:
        res, raised = None, e
        out.call()
    except Exception as e:
        out.viol('zipper-wrong-exception', 'zipper(%s) raised %s: %s' % (names, type(e).__name__, e))
        return out
    if len(ls) > 1:
        if raised is None:
            out.viol('zipper-accepts-mismatch', 'zipper(%s) returned %r although two sequences have different lengths neither of which is 1' % (names, res))
        out.cls('mismatch')
        out.nontrivial()
    else:
        n = list(ls)[0] if ls else (1 if seqs else 0)
        want = [tuple((q * n if len(q) == 1 else q)[i] for q in seqs) for i in range(n)] if seqs else []
        if raised is not None:
            out.viol('zipper-raised', 'zipper(%s) raised %s, expected %r' % (names, raised, want))
        elif res != want:
            out.viol('zipper-wrong', 'zipper(%s) = %r, expected %r' % (names, res, want))
        if len(set(len(q) for q in seqs)) > 1:
            out.nontrivial()
        out.cls('broadcast' if len(set(len(q) for q in seqs)) > 1 else 'equal')
    # lens
    out.sub()
    try:
        l = lens(*[list(q) for q in seqs])          # lens measures sequences; zipper turns scalars into 1-element lists before asking it
        out.call()
        if len(ls) > 1:
            out.viol('lens-accepts-mismatch', 'lens(%s) = %r' % (names, l))
        else:
            want_l = 0 if not names else (list(ls)[0] if ls else 1)
            if l != want_l:
                out.viol('lens-wrong', 'lens(%s) = %r, expected %r' % (names, l, want_l))
    except ValueError:
        out.call()
        if len(ls) <= 1:
            out.viol('lens-raised', 'lens(%s) raised although the lengths agree' % (names,))
    return out


AVALS = ZVALS + ['[[1]]', '([1],)', '[(1,)]', '((1,),)', '[[]]', '([],)', '[[1,2]]', '[[1],[2]]', "['ab']", '[None]', '{}', "{'a':1}", '[[[1]]]']


def aval(n):
    if n in ZVALS:
        return zval(n)
    return eval(n)


def check_aslist(case):
    from pyg_base import as_list, as_tuple
    out = Out()
    n = case['v']
    for fname, f, tp in (('as_list', as_list, list), ('as_tuple', as_tuple, tuple)):
        out.sub()
        try:
            once = f(aval(n))
            twice = f(once)
            out.call(2)
        except Exception as e:
            out.viol('normaliser-raised', '%s(%s) raised %s: %s' % (fname, n, type(e).__name__, e), f=fname)
            continue
        if type(once) is not tp:
            out.viol('normaliser-type', '%s(%s) = %r is not a %s' % (fname, n, once, tp.__name__), f=fname)
        if twice != once or type(twice) is not type(once):
            v = aval(n)
            single_list = isinstance(v, list) and len(v) == 1 and isinstance(v[0], list)
            out.viol('not-idempotent', '%s(%s) = %r but %s of that = %r' % (fname, n, once, fname, twice), f=fname,
                     shape='list whose single element is a list' if single_list else 'other')
        # ---- the list a normaliser hands out for a non-list value is the caller's to edit: the next call on an equal value gives the clean result again
        src_ = aval(n)
        if fname == 'as_list' and isinstance(once, list) and not isinstance(src_, list):
            out.sub()
            try:
                first_ = f(aval(n))
                keep_ = list(first_)
                first_.append('edited by the caller')
                again_ = f(aval(n))
                out.call(2)
                if again_ != keep_:
                    out.viol('normaliser-shared-state', 'as_list(%s) gave %r; after the caller appended to that list, as_list(%s) gives %r' % (n, keep_, n, again_), f=fname)
            except Exception as e:
                out.viol('normaliser-raised', '%s(%s) twice raised %s: %s' % (fname, n, type(e).__name__, e), f=fname)
        out.cls('%s:%s' % (fname, 'wrapped' if (isinstance(aval(n), (list, tuple, range))) else 'scalar'))
        out.nontrivial(fname)
    # ---- the `none` flag (None is a value to be wrapped, not 'nothing'): both normalisers agree under it, stay idempotent, and it changes nothing for other values
    for vname, mk in ((n, lambda: aval(n)), ('None', lambda: None)):
        for how, call in (('positional', lambda f_, v_: f_(v_, True)), ('keyword', lambda f_, v_: f_(v_, none=True))):
            out.sub()
            try:
                l1, t1 = call(as_list, mk()), call(as_tuple, mk())
                l2, t2 = call(as_list, l1), call(as_tuple, t1)
                out.call(4)
                plain_l, plain_t = as_list(mk()), as_tuple(mk())
            except Exception as e:
                out.viol('normaliser-raised', 'as_list / as_tuple(%s, none=True passed %s) raised %s: %s' % (vname, how, type(e).__name__, e), f='none-flag')
                continue
            want_l = [None] if mk() is None else plain_l
            if type(l1) is not list or type(t1) is not tuple or l1 != want_l or t1 != tuple(want_l):
                out.viol('normaliser-none-flag', 'as_list(%s, none=True) = %r and as_tuple(%s, none=True) = %r (flag passed %s): expected %r and %r' % (
                    vname, l1, vname, t1, how, want_l, tuple(want_l)), f='none-flag', none_value=mk() is None)
            elif l2 != l1 or t2 != t1:
                if not (isinstance(mk(), list) and len(mk()) == 1 and isinstance(mk()[0], list)) and not (t2 != t1 and len(t1) == 1 and isinstance(t1[0], (list, tuple))):
                    out.viol('not-idempotent', 'with none=True: as_list(%s) = %r then %r; as_tuple = %r then %r' % (vname, l1, l2, t1, t2), f='none-flag', shape='other')
    return out


# ------------------------------------------------------------------------------------------------ waiter (E3)

SHAPES_Q = [
    ['list', 'L'], ['list', 'L', 'L'], ['tuple', 'L', 'L'], ['dict', ['a', 'L'], ['b', 'L']],
    ['list', 'L', ['list', 'L', 'L']], ['dict', ['a', ['list', 'L', 'L']], ['b', ['tuple', 'L']]],
    ['list', ['list', 'L'], ['list', 'L'], ['list', 'L']], ['dict', ['a', ['dict', ['b', 'L']]], ['c', ['list', 'L', ['dict', ['d', 'L']]]]],
    ['list', 'L', 'L', 'L', 'L'], ['dict', ['a', ['list', 'L', ['tuple', 'L', 'L']]], ['b', 'L']], 'L', ['list'], ['dict'],
]
SHAPES_T = [
    ['list', 'L', 'L', 'L', 'L', 'L'], ['dict', ['a', ['list', 'L', 'L']], ['b', ['tuple', 'L', 'L']], ['c', 'L']],
    ['list', ['list', 'L', 'L'], ['dict', ['x', 'L'], ['y', ['tuple', 'L', 'L']]]],
    ['list', 'L', 'L', 'L', 'L', 'L', 'L'], ['dict', ['a', ['list', 'L', 'L', 'L']], ['b', ['list', 'L', ['tuple', 'L', 'L']]]],
    ['tuple', ['tuple', ['tuple', 'L', 'L'], 'L'], ['list', 'L', ['dict', ['k', 'L'], ['m', 'L']]]],
]


def leaf_paths(s, path=()):
    if s == 'L':
        return [path]
    if s[0] == 'dict':
        return [p for k, c in s[1:] for p in leaf_paths(c, path + (k,))]
    return [p for i, c in enumerate(s[1:]) for p in leaf_paths(c, path + (i,))]


KINDS = ['plain', 'future', 'coro', 'done', 'custom', 'lazy']          # custom = an object of a user class defining __await__
# lazy = a coroutine whose result only becomes available after it has been STARTED (a request sent on first use): the driver completes it, in the
# order under exploration, once it has started, and waits (bounded) for that; a waiter that runs its awaitables one after the other never starts it


def run_schedule(s, kinds, order, turns):
    """one execution: returns (result or exception, trace, deadlock flag)"""
    from pyg_base import waiter
    loop = asyncio.new_event_loop()
    paths = leaf_paths(s)
    futs = {}
    trace = []

    started = set()

    async def via(fut):
        return await fut

    async def lazy(fut, i):
        started.add(i)
        return await fut

    class Custom:
        def __init__(self, fut):
            self.fut = fut

        def __await__(self):
            return self.fut.__await__()

    def leaf(path):
        i = paths.index(path)
        k = kinds[i]
        if k == 'plain':
            return 'P' + '/'.join(map(str, path))
        fut = loop.create_future()
        if k == 'done':
            fut.set_result('R' + '/'.join(map(str, path)))
            return fut
        futs[i] = fut
        fut.add_done_callback(lambda f, i=i: trace.append(i))
        return fut if k == 'future' else Custom(fut) if k == 'custom' else lazy(fut, i) if k == 'lazy' else via(fut)

    async def driver():
        st = build(s, leaf)
        task = loop.create_task(waiter(st))
        task.add_done_callback(lambda t: trace.append('T'))
        for i in order:
            for _ in range(turns):
                await asyncio.sleep(0)
            if kinds[i] == 'lazy':
                for _ in range(20):
                    if i in started:
                        break
                    await asyncio.sleep(0)
                if i not in started:
                    task.cancel()
                    try:
                        await task
                    except BaseException:
                        pass
                    return ('deadlock', 'the awaitable at %s was never started' % list(paths[i]))
            futs[i].set_result('R' + '/'.join(map(str, paths[i])))
        for _ in range(10 * len(order) + 20):
            if task.done():
                break
            await asyncio.sleep(0)
        if not task.done():
            task.cancel()
            try:
                await task
            except BaseException:
                pass
            return ('deadlock', None)
        return ('ok', task.result()) if task.exception() is None else ('exc', task.exception())
    try:
        return loop.run_until_complete(driver()), trace
    finally:
        try:
            loop.run_until_complete(loop.shutdown_asyncgens())
        except Exception:
            pass
        loop.close()


def check_waiter(case):
    out = Out()
    s, kinds = case['s'], case['kinds']
    paths = leaf_paths(s)
    pend = [i for i, k in enumerate(kinds) if k in ('future', 'coro', 'custom', 'lazy')]
    want_leaf = lambda path: ('P' if kinds[paths.index(path)] == 'plain' else 'R') + '/'.join(map(str, path))
    label = 'shape %s kinds %s' % (json.dumps(s), kinds)
    results = set()
    for order in itertools.permutations(pend):
        for turns in case['turns']:
            out.sub()
            (status, res), trace = run_schedule(s, kinds, list(order), turns)
            out.call()
            sig = dict(k=len(pend), turns=turns)
            if status == 'deadlock':
                out.viol('waiter-deadlock', '%s order %s turns %d: %s' % (label, list(order), turns, res or 'waiter did not finish within the horizon'), **sig)
                continue
            if status == 'exc':
                out.viol('waiter-raised', '%s order %s turns %d: %s: %s' % (label, list(order), turns, type(res).__name__, res), **sig)
                continue
            p = same_shape(s, res, lambda path, v: None if v == want_leaf(path) else 'leaf at %s is %r, expected %r' % (list(path), v, want_leaf(path)))
            if p:
                out.viol('waiter-wrong', '%s completion order %s, %d extra turns: %s' % (label, list(order), turns, p), **sig)
                # replay twice: the same schedule must reproduce
                (st2, res2), tr2 = run_schedule(s, kinds, list(order), turns)
                if (st2, repr(res2), tr2) != (status, repr(res), trace):
                    out.viol('schedule-not-reproducible', '%s order %s: two runs of one schedule differ' % (label, list(order)), **sig)
            results.add(repr(res))
            out.cls('first=%s' % (trace[0] if trace else 'none'))
    if len(results) > 1:
        out.viol('waiter-schedule-dependent', '%s: %d different results over the completion orders' % (label, len(results)), k=len(pend))
    if len(pend) >= 2:
        out.nontrivial()
    return out


def gen_waiter(tier):
    q = tier == 'quick'
    for s in SHAPES_Q:
        L = len(leaf_paths(s))
        for kinds in itertools.product(KINDS if L <= (3 if q else 4) else ['future', 'coro', 'lazy'] if L > 4 else ['plain', 'future', 'custom', 'lazy'], repeat=L):
            yield {'s': s, 'kinds': list(kinds), 'turns': [0, 1, 2]}
    if not q:
        for s in SHAPES_T:
            L = len(leaf_paths(s))
            for kinds in itertools.product(['future', 'coro', 'lazy'] if L <= 5 else ['future', 'lazy'], repeat=L):
                yield {'s': s, 'kinds': list(kinds), 'turns': [0, 1, 2] if L <= 5 else [0, 1]}


def suites(tier, seed):
    q = tier == 'quick'
    N = 5 if q else 6
    structs = gen_structs(N)
    zmax = 3
    return [
        Suite('loop', lambda: ({'s': s} for s in structs), check_loop,
              rule='every structure of the grammar leaf | list[0..2] | tuple[0..2] | dict{a[,b]} with <= %d nodes (%d structures) x companions y in %s x z in '
                   '{absent, scalar, same shape} x positional / keyword passing through a generated f(x, y=0, z=0), and 10 library helpers; '
                   'non-trivial = nesting depth >= 2 with a companion' % (N, len(structs), COMP), bounds=dict(max_nodes=N, structures=len(structs))),
        Suite('zipper', lambda: ({'args': list(a)} for n in range(0, zmax + 1) for a in itertools.product(ZVALS, repeat=n)), check_zip,
              rule='all argument tuples of <= %d values from %s for zipper and lens; non-trivial = sequences of different lengths' % (zmax, ZVALS), bounds=dict(max_args=zmax)),
        Suite('normalisers', lambda: ({'v': v} for v in AVALS), check_aslist,
              rule='as_list / as_tuple applied twice over %d values incl. nested one-element wrappers' % len(AVALS)),
        Suite('waiter', lambda: gen_waiter(tier), check_waiter,
              rule='structures with k awaitable leaves (pending future, coroutine awaiting a pending future, a lazy coroutine that can only complete once started, an object with __await__, completed future, plain value) x every completion '
                   'order (k!) x {0,1,2} extra loop turns between completions on a fresh asyncio loop; k <= %d; non-trivial = k >= 2' % (4 if q else 6),
              bounds=dict(max_awaitables=4 if q else 6, extra_turns=[0, 1, 2])),
    ]
