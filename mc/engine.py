"""
Engines for the bounded-exhaustive checks (see DESIGN.md section 2).

E2  Suite      -- small-scope exhaustive enumerator: gen() yields JSON-able case descriptors,
                  check(case) runs the real implementation against the reference model.
E1  BfsSuite   -- explicit-state breadth-first search over operation histories on the real objects;
                  a state is the history that reaches it, canonical keys de-duplicate.

Both are sharded over a fork()ed process pool. Nothing is sampled: every case the generator yields
is executed (unless the caller asks for a stride, which is only used by the hash-seed self test).
"""
import hashlib
import json
import math
import multiprocessing as mp
import os
import signal
import time
import traceback

NPROC = int(os.environ.get('VERIF_NPROC', '0')) or min(16, os.cpu_count() or 1)
CASE_TIMEOUT = float(os.environ.get('VERIF_CASE_TIMEOUT', '30'))
MAX_STORED = 25          # violations stored per shard (counting continues)
MAX_CLASSES = 4000


class CaseTimeout(BaseException):
    pass


def _alarm(signum, frame):
    raise CaseTimeout()


def jdump(x):
    return json.dumps(x, sort_keys=True, separators=(',', ':'), allow_nan=False, default=_bad)


def _bad(o):
    raise TypeError('case descriptor is not JSON-able: %r (%s)' % (o, type(o)))


def h64(s):
    return int.from_bytes(hashlib.blake2b(s.encode(), digest_size=8).digest(), 'big')


class Out:
    """What one case (or one BFS transition) produced."""
    __slots__ = ('v', 'nt', 'classes', 'calls', 'states', 'evals')

    def __init__(self):
        self.v = []          # (kind, sig dict, message)
        self.nt = set()      # keys of non-trivial sub-cases (None = the case itself)
        self.classes = set()
        self.calls = 0
        self.states = 0      # extra states visited inside the case (coarse cases)
        self.evals = 0       # sub-cases evaluated inside a coarse case (0 -> the case counts as 1)

    def viol(self, kind, msg, /, **sig):
        self.v.append((kind, sig, str(msg)[:1500]))

    def call(self, n=1):
        self.calls += n

    def sub(self, n=1):
        self.evals += n

    def nontrivial(self, key=None):
        self.nt.add(key)

    def cls(self, name):
        if len(self.classes) < 64:
            self.classes.add(str(name)[:80])

    def ok(self):
        return not self.v


class Suite:
    """E2: exhaustive product over explicit finite domains."""
    kind = 'E2'

    def __init__(self, name, gen, check, rule, bounds=None, self_sharded=False):
        self.name = name
        self.gen = gen              # () -> iterable of JSON-able cases; or (i, n) -> ... if self_sharded
        self.check = check          # case -> Out
        self.rule = rule
        self.bounds = bounds or {}
        self.self_sharded = self_sharded

    def replay(self, case):
        return self.check(case)


class BfsSuite:
    """E1: explicit-state BFS.  Subclass and implement:
        initial()            -> list of histories (a history is a list of JSON-able op descriptors)
        visit(history)       -> (Out, key, expandable): build the state by replaying history on fresh
                                real objects with the model in lock-step, check the LAST transition
                                (earlier ones were checked when their prefix was visited), return the
                                canonical key (str) of the reached state.
        ops(history)         -> list of op descriptors enabled in the state reached by history
    """
    kind = 'E1'

    def __init__(self, name, depth, rule, bounds=None):
        self.name = name
        self.depth = depth
        self.rule = rule
        self.bounds = dict(bounds or {}, depth=depth)

    def initial(self):
        raise NotImplementedError

    def visit(self, history):
        raise NotImplementedError

    def ops(self, history):
        raise NotImplementedError

    def replay(self, case):
        out, key, exp = self.visit(case['history'])
        return out


# ------------------------------------------------------------------------------------------------
# worker side

class ShardResult:
    def __init__(self):
        self.cases = 0
        self.evals = 0
        self.calls = 0
        self.states = 0
        self.nt = set()
        self.classes = set()
        self.nviol = 0
        self.viol = []       # dicts
        self.viol_sigs = set()
        self.lost = 0
        self.digest = 0
        self.samples = []
        self.last = None
        self.wall = 0.0

    def add(self, case_json, case, out, suite_name, want_sample):
        self.cases += 1
        self.evals += out.evals or 1
        self.calls += out.calls
        self.states += out.states
        ch = None
        if out.nt:
            ch = h64(case_json)
            for k in out.nt:
                self.nt.add(ch if k is None else h64('%d|%s' % (ch, k)))
        if len(self.classes) < MAX_CLASSES:
            self.classes |= out.classes
        kinds = sorted(set(k for k, _, _ in out.v))
        self.digest ^= h64(case_json + '|' + ','.join(kinds) + '|' + ','.join(sorted(out.classes)))
        for kind, sig, msg in out.v:
            self.nviol += 1
            sk = kind + jdump(_jsonable(sig))
            if sk in self.viol_sigs and len(self.viol) >= 5:
                continue
            if len(self.viol) < MAX_STORED:
                self.viol_sigs.add(sk)
                self.viol.append(dict(suite=suite_name, kind=kind, sig=_jsonable(sig), msg=msg, case=case))
            elif sk not in self.viol_sigs:
                self.lost += 1       # a violation whose signature has no stored representative
        if want_sample and len(self.samples) < 4:
            self.samples.append(case)
        self.last = case


def _jsonable(x):
    try:
        jdump(x)
        return x
    except Exception:
        return json.loads(json.dumps(x, default=repr, sort_keys=True))


def run_case(fn, case):
    """run fn(case) under the watchdog; any escape is itself a violation (never silently dropped)"""
    signal.setitimer(signal.ITIMER_REAL, CASE_TIMEOUT)
    try:
        out = fn(case)
    except CaseTimeout:
        out = Out()
        out.viol('timeout', 'case did not finish within %ss (hang?)' % CASE_TIMEOUT)
    except Exception as e:
        out = Out()
        out.viol('harness-exception', '%s: %s\n%s' % (type(e).__name__, e, traceback.format_exc()[-1200:]),
                 exc=type(e).__name__)
    finally:
        signal.setitimer(signal.ITIMER_REAL, 0)
    return out


_CTX = {}


def _e2_worker(arg):
    si, shard, n, stride, seed = arg
    signal.signal(signal.SIGALRM, _alarm)
    suite = _CTX['suites'][si]
    t0 = time.time()
    res = ShardResult()
    it = suite.gen(shard, n) if suite.self_sharded else suite.gen()
    for idx, case in enumerate(it):
        if not suite.self_sharded and idx % n != shard:
            continue
        if stride > 1 and idx % stride:
            continue
        cj = jdump(case)
        case = json.loads(cj)       # what a replay file would hold: guarantees replay fidelity
        out = run_case(suite.check, case)
        want = idx == 0 or ((idx * 2654435761 + seed * 40503) % 4093) % 61 == 0
        res.add(cj, case, out, suite.name, want)
    res.wall = time.time() - t0
    return res


def _bfs_worker(arg):
    si, histories = arg
    signal.signal(signal.SIGALRM, _alarm)
    suite = _CTX['suites'][si]
    res = ShardResult()
    succ = []
    for h in histories:
        try:
            ops = suite.ops(h)
        except Exception as e:
            o = Out()
            o.viol('harness-exception', 'ops(): %s: %s\n%s' % (type(e).__name__, e, traceback.format_exc()[-1200:]))
            res.add(jdump(h), dict(history=h), o, suite.name, False)
            continue
        for op in ops:
            h2 = h + [op]
            cj = jdump(h2)
            h2 = json.loads(cj)
            r = run_case(suite.visit, h2)
            if isinstance(r, Out):       # watchdog / exception path
                out, key, exp = r, None, False
            else:
                out, key, exp = r
            res.add(cj, dict(history=h2), out, suite.name, False)
            if key is not None:
                succ.append((key, h2, bool(exp)))
    return res, succ


class Totals:
    def __init__(self):
        self.cases = 0
        self.evals = 0
        self.calls = 0
        self.states = 0
        self.transitions = 0
        self.nt = set()
        self.classes = set()
        self.nviol = 0
        self.viol = []
        self.digest = 0
        self.lost = 0
        self.samples = []
        self.suites = []
        self.exhaustive = True
        self.pruned = 0

    def merge(self, r):
        self.cases += r.cases
        self.evals += r.evals
        self.calls += r.calls
        self.nt |= r.nt
        self.classes |= r.classes
        self.nviol += r.nviol
        self.viol.extend(r.viol)
        self.lost += r.lost
        self.digest ^= r.digest


def run_suites(suites, seed=0, stride=1, log=print):
    """runs every suite to completion; returns Totals"""
    _CTX['suites'] = suites
    tot = Totals()
    ctx = mp.get_context('fork')
    for si, suite in enumerate(suites):
        t0 = time.time()
        if suite.kind == 'E2':
            n = NPROC
            with ctx.Pool(n) as pool:
                parts = pool.map(_e2_worker, [(si, i, n, stride, seed) for i in range(n)], chunksize=1)
            st = Totals()
            for r in parts:
                st.merge(r)
                tot.merge(r)
                tot.states += r.states
            for r in parts:
                for s in r.samples:
                    if len(tot.samples) < 40:
                        tot.samples.append(dict(suite=suite.name, case=s))
            lastr = [r for r in parts if r.last is not None]
            if lastr:
                tot.samples.append(dict(suite=suite.name, case=lastr[-1].last, note='last case of a shard'))
            tot.states += st.cases
            tot.transitions += st.calls
            info = dict(suite=suite.name, engine='E2', cases=st.cases, evaluations=st.evals, impl_calls=st.calls,
                        nontrivial=len(st.nt), violations=st.nviol, wall_s=round(time.time() - t0, 2),
                        rule=suite.rule, bounds=suite.bounds)
        else:
            info = _run_bfs(si, suite, tot, ctx, seed, maxdepth=(getattr(suite, 'crosscheck_depth', 2) if stride > 1 else None))
            info['wall_s'] = round(time.time() - t0, 2)
        tot.suites.append(info)
        log('  suite %-28s %s cases=%d calls=%d nontrivial=%d viol=%d %.1fs' % (
            suite.name, suite.kind, info['cases'], info['impl_calls'], info['nontrivial'], info['violations'],
            info['wall_s']))
    return tot


def _run_bfs(si, suite, tot, ctx, seed, maxdepth=None):
    signal.signal(signal.SIGALRM, _alarm)
    seen = {}
    frontier = []
    st = Totals()
    init = suite.initial()
    r0 = ShardResult()
    for h in init:
        cj = jdump(h)
        h = json.loads(cj)
        r = run_case(suite.visit, h)
        if isinstance(r, Out):
            out, key, exp = r, None, False
        else:
            out, key, exp = r
        r0.add(cj, dict(history=h), out, suite.name, False)
        if key is not None and key not in seen:
            seen[key] = h
            if exp:
                frontier.append(h)
            else:
                st.pruned += 1
    st.merge(r0)
    transitions = r0.cases
    levels = [dict(depth=0, states=len(seen), transitions=r0.cases)]
    deepest = init[-1] if init else None
    signal.setitimer(signal.ITIMER_REAL, 0)
    with ctx.Pool(NPROC) as pool:
        for depth in range(1, (suite.depth if maxdepth is None else min(suite.depth, maxdepth)) + 1):
            if not frontier:
                break
            nchunk = max(1, min(len(frontier), NPROC * 8))
            chunks = [frontier[i::nchunk] for i in range(nchunk)]
            parts = pool.map(_bfs_worker, [(si, c) for c in chunks], chunksize=1)
            cand = []
            ntrans = 0
            for r, succ in parts:
                st.merge(r)
                ntrans += r.cases
                cand.extend(succ)
            cand.sort(key=lambda t: (len(t[1]), jdump(t[1])))
            new = []
            for key, h, exp in cand:
                if key in seen:
                    continue
                seen[key] = h
                if exp:
                    new.append(h)
                else:
                    st.pruned += 1
            transitions += ntrans
            levels.append(dict(depth=depth, new_states=len(new), states=len(seen), transitions=ntrans))
            if new:
                deepest = new[(seed * 7919) % len(new)]
            frontier = new
    tot.merge(st)
    tot.pruned += st.pruned
    tot.states += len(seen)
    tot.transitions += transitions
    keys = sorted(seen)
    for k in keys[:1] + keys[(seed % max(1, len(keys))):][:1]:
        tot.samples.append(dict(suite=suite.name, history=seen[k]))
    if deepest is not None:
        tot.samples.append(dict(suite=suite.name, history=deepest, note='a deepest history'))
    return dict(suite=suite.name, engine='E1', cases=transitions, evaluations=st.evals, impl_calls=st.calls, states=len(seen),
                nontrivial=len(st.nt), violations=st.nviol, levels=levels, pruned_by_size=st.pruned,
                unexpanded_frontier=len(frontier), rule=suite.rule, bounds=suite.bounds)
