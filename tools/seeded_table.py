"""python3 tools/seeded_table.py  -- markdown table of the seeded changes (seeded/INDEX.json + seeded/*/meta.json)"""
import json, os, re
HERE = os.path.dirname(os.path.dirname(os.path.abspath(__file__)))
idx = json.load(open(os.path.join(HERE, 'seeded', 'INDEX.json')))['entries']
rows = []
for name in sorted(idx):
    mp = os.path.join(HERE, 'seeded', name, 'meta.json')
    if not os.path.exists(mp):
        continue
    m = json.load(open(mp))
    diff = open(os.path.join(HERE, 'seeded', name, 'patch.diff')).read()
    files = sorted(set(l[6:].replace('src/pyg_base/', '') for l in diff.splitlines() if l.startswith('+++ b/')))
    ctx = sorted(set(re.sub(r'^@@.*@@\s*', '', l)[:40] for l in diff.splitlines() if l.startswith('@@')))
    e = idx[name]
    rows.append('| %s | %s | %s (%s) | %s | %s | %s |' % (name, m['property'], ', '.join(files), '; '.join(c for c in ctx if c)[:60], e['first_run'].split(' ')[0],
                                                     ', '.join(m.get('caught_by', [])) or '-', e.get('strengthened', '').replace('|', '/')[:230]))
print('| seeded change | property | where | first run | caught now by | what the miss led to |')
print('|---|---|---|---|---|---|')
print('\n'.join(rows))
n = len(rows); c = sum(1 for r in rows if '| caught |' in r)
print('\n%d seeded changes, %d caught by the first run of the check, %d missed at first and caught after strengthening.' % (n, c, n - c))
