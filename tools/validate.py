"""python3-vt tools/validate.py manifest|evidence|properties [path...]  -- schema validation (jsonschema lives in the tooling venv)"""
import json, sys, os, glob
import jsonschema
VP = '/root/.vp'
HERE = os.path.dirname(os.path.dirname(os.path.abspath(__file__)))
def load(p):
    with open(p) as f: return json.load(f)
def main():
    what = sys.argv[1]
    rc = 0
    if what == 'manifest':
        paths = sys.argv[2:] or [os.path.join(HERE, 'MANIFEST.json')]
        schema = load(os.path.join(VP, 'MANIFEST.schema.json'))
    elif what == 'evidence':
        paths = sys.argv[2:] or sorted(glob.glob(os.path.join(HERE, 'evidence', '*.json')))
        schema = load(os.path.join(VP, 'EVIDENCE.schema.json'))
    else:
        print('usage'); return 2
    v = jsonschema.Draft202012Validator(schema)
    for p in paths:
        errs = list(v.iter_errors(load(p)))
        for e in errs[:5]:
            print('%s: %s at %s' % (p, e.message[:300], list(e.absolute_path)))
        if errs: rc = 1
    if what == 'manifest' and rc == 0:
        m = load(paths[0])
        props = [json.loads(l)['id'] for l in open(os.path.join(HERE, 'properties.jsonl'))]
        claimed = [c['property_id'] for c in m['checks']]
        na = [c['property_id'] for c in m.get('not_applicable', [])]
        for p in props:
            if (p in claimed) == (p in na):
                print('property %s must be claimed xor not_applicable' % p); rc = 1
    return rc
sys.exit(main())
