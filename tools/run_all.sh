#!/bin/bash
# tools/run_all.sh [quick|thorough] [ids...]  -- runs every claimed check once, prints rc and wall per check
cd "$(dirname "$(readlink -f "$0")")/.." || exit 2
tier=${1:-quick}; shift
ids="$@"
if [ -z "$ids" ]; then ids=$(/venv/bin/python -c "import json;print(' '.join(c['property_id'] for c in json.load(open('MANIFEST.json'))['checks']))"); fi
fail=0
for id in $ids; do
  s=$(date +%s.%N)
  out=$(./check $id --tier $tier 2>&1); rc=$?
  e=$(date +%s.%N)
  printf "%s rc=%d wall=%.1fs :: %s\n" "$id" "$rc" "$(echo "$e - $s" | bc)" "$(echo "$out" | tail -1 | cut -c1-200)"
  if [ $rc -ne 0 ]; then fail=1; echo "$out" | grep -E "VIOLATION|SELFTEST|EVIDENCE-INVALID|Traceback" | head -5 | cut -c1-400; fi
done
exit $fail
