"""python3 tools/gen_manifest.py  -- (re)writes /verif/MANIFEST.json from the table below and validates it."""
import json
import os
import subprocess
import sys

HERE = os.path.dirname(os.path.dirname(os.path.abspath(__file__)))

BASELINE = ("cd /repo && /venv/bin/python -m pytest -ra -q -p no:cacheprovider --timeout=900 "
            "--continue-on-collection-errors")

# id -> (engine, technique, level text, level note, design ref)
TRUST = 'pandas 3.0.6 / numpy 2.5.3 / CPython 3.12.1; the verdict is for the stated bound only; reference models and value alphabets as listed in the module\'s ASSUMPTIONS (copied into the evidence file).'

CHECKS = {
    'C01': ('E1', 'explicit-state BFS over operation histories on real dictable objects, list-of-records model in lock-step, canonical-state de-duplication',
            'Breadth-first search over histories of public table operations (assignment incl. misfits, deletion, slicing, masks, integer lists, projection, derived columns, '
            'renaming, do, -, &, copy, inc/exc, + and concat with 10 kinds of operand) from ~55 constructions, depth 2 (quick) / 3 (thorough), tables <=3/4 rows x <=3 columns x 5 cell values. '
            'Every transition is compared with a list-of-records model (rectangularity, len/shape, d[i][c]==d[c][i], iteration, None fill), every version produced earlier in the '
            'history is re-inspected (aliasing), misfit assignments must raise ValueError and leave the table intact, and the same op on a freshly built equal table must agree.',
            'Bounded depth and table size; column order, rename clashes, wrong-length masks are excluded. ' + TRUST, 'DESIGN.md section 4, C01'),
    'C02': ('E2+E4', 'bounded exhaustive enumeration of table pairs against a nested-loop relational model; termination decided by lasso detection on the merge cursors plus deterministic fuel',
            'All pairs of tables (0..3 x 0..2 rows quick, 0..3 x 0..3 and 4-row sides thorough) over an 8-value key domain incl. two NaN objects of different identity, 1..3 key columns, every '
            'lcols/rcols spelling and mode: join must be the multiset of matching row pairs, xor the anti-join, both partition x, operands untouched. Every call runs under a sys.settrace '
            'monitor: an exact repeat of (while-header, l, r, len(res)) is a proven non-terminating lasso; a fuel bound on line events backs it up.',
            'Key equality as the statement defines it; bool keys, output row order and columns of an empty join are not checked. ' + TRUST, 'DESIGN.md section 4, C02'),
    'C03': ('E2', 'bounded exhaustive enumeration of index-subset tuples x NaN patterns x containers x policies against a dict-of-days as-of alignment model',
            'Every pair/triple of Series over every index subset of a 4/5-day timeline x NaN patterns, nested list/dict containers with non-timeseries members, 2-column frames with '
            'column policies, and all tuples of bare numpy arrays of length 0..4/5, through df_index, df_reindex, df_sync and presync spellings, for ij/oj/lj/rj/explicit index and '
            'None/ffill/bfill: exact common index, original values kept, as-of fill, structure and identity of other members preserved.',
            'Sorted duplicate-free daily indices; tuples as containers, limit, partially-NaN frame rows with a fill method are excluded. ' + TRUST, 'DESIGN.md section 4, C03'),
    'C04': ('E2', 'exhaustive enumeration of the whole 400-year domain (thorough) / boundary years and boundary days (quick) x every supported spelling against datetime arithmetic',
            'For every calendar day of 1900-2299 (thorough: all 146 097; quick: 14 years in full plus the 1st/12th/13th/28th-31st of every month) every supported spelling of the instant '
            '(datetime, date, parts, yyyymmdd, ordinal, numpy/pandas, ISO, uk/us numeric with 4 separators, month-name forms, dt2str round trip, ymd) must give the same datetime, other-dialect '
            'strings with day>12 must raise ValueError, and dt(y,m,d) over m in [-36,48] x d in [-400,400] must equal the normalised-month arithmetic.',
            'Two-digit years, now-relative forms, time zones and sub-second parts of dd-mm-yyyy strings are excluded. ' + TRUST, 'DESIGN.md section 4, C04'),
    'C05': ('E2+E1', 'exhaustive enumeration of calendar configurations (all holiday subsets of a critical window x weekends x adj) against day-by-day stepping; BFS over registry histories',
            'All 2^7 (quick) / 2^10 (thorough) holiday subsets of a window placed over a weekend+month end and over the year end x 4 weekend definitions x 3 adjustments: is_bday, adjust, add '
            '(loop path vs table path), inverse and two-step laws, bdays, Calendar.drange and dt_bump against a stepping model for every t in the window and n up to +-40; explicit-state BFS '
            'over calendar(key, holidays) / calendar(key) histories against a last-writer-wins registry model.',
            'Dates within 60 business days of the calendar range ends are not claimed. ' + TRUST, 'DESIGN.md section 4, C05'),
    'C06': ('E2', 'bounded exhaustive enumeration of inputs (all tables x all conditions) against a reference predicate filter',
            'Every x-column of 0..4 (quick) / 0..5 (thorough) rows over a 7-value cell domain against a closed menu of 68 conditions is run on the '
            'real inc/exc/find_/one_or_none and compared with a Python predicate filter: partition, order, columns kept on empty results, '
            'idempotence, operand untouched. Exhaustive inside the bound, silent outside it.',
            'Tables <=5 rows, one filtered column plus a row-id and a constant column; +-inf cells, NaN inside value lists and several callables at once are outside the statement. ' + TRUST,
            'DESIGN.md section 4, C06'),
    'C07': ('E2', 'exhaustive enumeration of all pairs and triples of a mixed-type universe (order axioms), all short lists and all small tables x sort spellings',
            'All 50^2 ordered pairs and 50^3 triples of a mixed universe (two NaN identities, +-inf, bools, numpy scalars, dates, nested and empty containers) for the cmp laws; all lists of '
            '<=4/5 scalars over 8 values (fresh and shared NaN) and of <=3 two-tuples for sort (permutation by identity, non-decreasing under cmp); all tables <=3/4 rows x 13 sort spellings '
            'for dictable.sort (stable cmp order, idempotent, explicit value orders, operand untouched).',
            'Ordering between types is whatever cmp says; bools and +-inf take part in the cmp laws only. ' + TRUST, 'DESIGN.md section 4, C07'),
    'C08': ('E2', 'bounded exhaustive enumeration of operand tuples over index subsets x value rotations x policies against pointwise float64 arithmetic on the alignment model',
            'All ordered pairs of Series over every index subset of a 4/5-day timeline x value rotations of {1,0,NaN,2,-1.5}, scalars on either side, pairs of 2-column frames with both column '
            'policies, triples/quadruples for the list forms, and df_sum/df_mean/df_count: result index = intersection/union, result[t] = a[t] op b[t], neutral element for missing columns, '
            'division by zero gives NaN never inf, add_/mul_ commutative, left-to-right reduction (checked to the last bit), NaN-skipping aggregates.',
            'Series mixed with multi-column frames, integer dtypes, fill methods are excluded. ' + TRUST, 'DESIGN.md section 4, C08'),
    'C09': ('E2', 'exhaustive enumeration of the day x bump transition system (every day of the 400-year cycle x every n x every unit in the thorough tier) against a stepping reference',
            'States are days, edges are bumps: every start day of the cycle (thorough) / 14 years (quick) x n in [-60,60] x units b,d,w,m,q,y,h,n,s,int,timedelta, named tenors, all 2- and 3-part '
            'compound tenors on multi-year windows, intraday starts: conformance of every edge with a day-by-day reference, weekday landing, monotonicity, composition and inverse laws.',
            'Month-based bumps with a time of day and now-relative forms are excluded. ' + TRUST, 'DESIGN.md section 4, C09'),
    'C10': ('E2', 'bounded exhaustive enumeration of (start, span, bump) against iteration of the reference bump',
            'Every start day of 2023-12-20..2024-03-10 x spans 0..21/70 days in both directions (multi-year spans for month-based bumps) x ints, timedeltas (incl. intraday), every single period '
            'string with every unit and sign, compound strings: the list must be the strictly monotone iteration of the bump inside the closed interval, int == timedelta == "nd", weekday '
            'lists for business-day bumps, [t0] for an empty span and ValueError for a bump pointing away from t1.',
            'Zero-length bumps, month-based bumps from days 29-31 and now-relative endpoints are excluded. ' + TRUST, 'DESIGN.md section 4, C10'),
    'C11': ('E2', 'bounded exhaustive enumeration of tables x key choices against a group-by-equality model and inverse laws',
            'All tables <=4/5 rows over a mixed-type key domain (None, 1, 1.0, 2, str, datetime) x every key choice: listby has one row per distinct key with values in original order and '
            'unlist equals the stable cmp-sort, groupby/ungroup conserve the multiset of rows, pivot puts every z in its (x, y) cell (aggregated), unpivot restores the distinct rows; operands untouched.',
            'NaN in key columns and the shown representative of 1/1.0 are excluded. ' + TRUST, 'DESIGN.md section 4, C11'),
    'C12': ('E2', 'exhaustive enumeration of all NaN masks of short vectors and 2-column frames x methods x limits against scalar-loop fill models',
            'Every NaN mask of vectors of length 0..6/9 and of 2-column frames of 0..3/4 rows, as Series, DataFrame, 1-d and 2-d arrays x 35 method/limit combinations: no non-NaN cell changes, '
            'ffill/bfill reach exactly `limit` positions, constants, method lists, nona/fnna row removal, ffill_na/ffill_0, array result == values of the pandas result, argument untouched.',
            'pad/interpolation methods, axis=1 and constants with a limit are excluded. ' + TRUST, 'DESIGN.md section 4, C12'),
    'C13': ('E2', 'bounded exhaustive enumeration of index subsets x bound positions x brackets (and stitch configurations) against the interval predicate',
            'Every subset of a 6-point index x every lb/ub position (before, on, between, after, None) x 4 brackets for Series and frames, time-of-day windows incl. wrap past midnight, and all '
            'stitch configurations of 2..3/4 series (some empty) x bound lists x n, with the df_unslice round trip.',
            'Unsorted/duplicate indices and df_unslice of a Series are excluded. ' + TRUST, 'DESIGN.md section 4, C13'),
    'C14': ('E2', 'exhaustive enumeration of all ordered pairs and triples of a nested value universe plus fresh-NaN structural copies (equivalence axioms by table lookup)',
            'All pairs and triples of a 148-entry (quick) / 326-entry (thorough) universe of scalars, numpy scalars, timestamps, containers, arrays, Series and DataFrames and their fresh-NaN copies: '
            'eq returns a boolean and never raises, is reflexive (also against the copy), symmetric, transitive, type-strict at every depth, agrees with == on plain values and with an explicit '
            'array/pandas model; in_ agrees with any(eq).',
            'Extension arrays, sets, non-str dict keys excluded; transitivity is not asserted across date/datetime64 groups whose own == is intransitive. ' + TRUST, 'DESIGN.md section 4, C14'),
    'C15': ('E2+E1', 'bounded exhaustive enumeration of trees and all pairs (t, u) against a recursive merge model with deep identity snapshots; update chains with earlier results re-inspected',
            'Every prefix-free tree with <=3/4 leaves over 2-3 keys: flatten/rebuild round trip, keys/values order, getitem spellings; ALL pairs (t, u) x ignore lists through tree_update, Dict + dict, '
            'items_to_tree, table_to_tree against a recursive merge model, with deep snapshots (identity and content of every nested branch) of both operands; chains of updates with every '
            'intermediate result kept and re-inspected; table<->tree inverse on patterns with 1..4 wildcards.',
            'Empty branches in u, non-string keys and result branch types are excluded. ' + TRUST, 'DESIGN.md section 4, C15'),
    'C16': ('E2', 'bounded exhaustive enumeration of lists, mappings x key selections, and every dependency digraph x every keyword order',
            'All lists <=4/5 over 4 elements as ulist operands (ordered set algebra, type, no duplicates, operands untouched); every mapping over <=3/4 keys in every insertion order for dictattr, Dict '
            'and a subclass x every key selection for -, &, [], +, relabel, attribute access; Dict.__call__ on EVERY digraph on <=4 derived keys (2^12) x every keyword order, structured families on 5-6 '
            'keys: topological result for acyclic graphs, ValueError for every cyclic one, termination by a line-event fuel counter.',
            'Self-referencing definitions and clashing relabels are excluded. ' + TRUST, 'DESIGN.md section 4, C16'),
    'C17': ('E1', 'explicit-state BFS over publication histories on real bitemporal stores against a spec-level publication-list model, with a differential no-leak oracle',
            'Breadth-first search over histories of bi_merge publications (15 partial versions over 2 dates x 3 non-decreasing stamps, depth 2/3; single-date histories depth 3/4; list-form merges): '
            'from every reached store all 16 reads (8 read times x what in {-1,0}) are compared with the model, the as-of-T read must equal the read on the store built from the publications stamped '
            '<= T only (no look-ahead leak), re-merging a current version changes no read, merge inputs are untouched.',
            'Decreasing stamps and multi-column frames are excluded. ' + TRUST, 'DESIGN.md section 4, C17'),
    'C18': ('E2+E1', 'exhaustive enumeration of signatures x valid calls x decorator stacks against direct calls and inspect; BFS over cache call histories against a call-counting model',
            'All 60 signatures (0..4 positional parameters x trailing defaults x +-*args x +-**kwargs) x every valid call (inspect.signature.bind) x 10 decorators x every stack of <=2/3: same result, '
            'same argument specification, wrapping twice equals wrapping once (directly and through a chain), getcallargs == inspect.getcallargs, call_with_callargs round trip, try_* fallbacks on a '
            'raising twin, kwargs_support keyword filtering; BFS over all call sequences (depth 3/5, 11 spellings + clear_cache) on a cached function: evaluated iff the combination is new.',
            'Keyword-only parameters and unhashable cache arguments are excluded; one open known finding (kwargs_support drops undeclared keywords of a **kwargs function). ' + TRUST,
            'DESIGN.md section 4, C18'),
    'C19': ('E2+E3', 'bounded exhaustive enumeration of nested structures x companions x passing; every completion order of the awaitables on a real asyncio loop driven by harness-owned futures',
            'Every structure of the grammar leaf|list|tuple|dict with <=5/6 nodes x companion kinds x positional/keyword passing through a generated lifted function and 10 library helpers; all '
            'argument tuples <=3 for zipper/lens; as_list/as_tuple idempotence; waiter on structures with k<=4/6 awaitables (pending futures, coroutines, completed futures) under EVERY completion '
            'order (k!) x 0..2 extra loop turns, same result for every schedule, no deadlock within the horizon.',
            'Raising/cancelled awaitables and pandas first arguments are excluded; one open known finding (as_tuple on a list whose single element is a list). ' + TRUST, 'DESIGN.md section 4, C19'),
    'C20': ('E2', 'bounded exhaustive enumeration of input kinds x key subsets x defaults x data/expiry assignments against a keyed-join model with a per-key call log',
            '1..4 inputs, each a scalar or a table over any subset of 2-3 keys (rows scrambled) x every subset of defaulted inputs x previously computed data over any key subset x expiry per key in '
            '{no row, past, future, None}; two key columns in both orders of `on`: surviving keys = inner join (outer for defaulted inputs), sorted by key, value = f on that key\'s values, f '
            'evaluated exactly once per recomputed key and never for kept or dropped keys; join() directly.',
            'The value returned when no key survives and data combined with only-defaulted inputs are excluded. ' + TRUST, 'DESIGN.md section 4, C20'),
}

# what the seeded-change rounds added to each check after the level text above was written (DESIGN.md section 10.4 / 10.5)
EXTRA = {
    'C01': 'Also: records with permuted key order, zero-row columns next to scalars, negative / numpy / range integer lists, do() with functions reading other columns, rename swaps.',
    'C02': 'Also: string keys of different lengths, +-inf keys, a table joined / xor-ed with itself on two columns, the same table objects joined again after an in-place key edit, '
           'key columns stored in another order, two shared columns; thorough adds 4x4 tables over a 4-value key domain.',
    'C03': "Also: series sharing ONE index object, container dicts with a key called 'index', presync with join / method given at call time and series passed by keyword.",
    'C04': 'Also: year-first month-name strings, ymd of every spelling with the us dialect, ISO T strings with 1 / 3 / 5 fractional digits.',
    'C05': 'Also: add / bdays / dt_bump with an explicitly passed adj that differs from the calendar\'s own.',
    'C06': 'Also: 1-tuples, truthy / falsy non-bool predicate answers, keyword-only predicate parameters and functools.partial, the caller\'s filter dict compared after the call.',
    'C07': 'Also: dicts in different insertion orders, bool-vs-number sequences, np.float32 / np.float16 NaN, key functions returning lists / tuples, value orders spelt against the column order.',
    'C08': 'Also: sub_/div_ list forms, one list object passed twice, frames storing their columns in another order, scalars at interior list positions, indexes that carry a freq.',
    'C09': 'Also: the parts of a compound tenor handed over as ONE list object, twice (the list must stay what it was).',
    'C10': 'Also: microsecond starts, end points +-3 microseconds around grid points, end points relative to the start, millisecond bumps, the caller emptying a returned list.',
    'C11': 'Also: a key column whose name contains every y label, NaN and +-inf pivot keys, the SAME table regrouped after an in-place key edit.',
    'C12': 'Also: +-inf cells, repeated methods and the tuple spelling, 10 lists mixing fnna / nona / ffill_na / ffill_0 with the fills, a Series with a duplicated first timestamp.',
    'C13': 'Also: a sub-second time-of-day grid, bound lists with an open end, suite spellings (a date bound written as ISO / yyyymmdd string, date, np.datetime64, Timestamp, yyyymmdd int over a '
           'half-day grid), the tuple spelling for time-of-day windows.',
    'C14': 'Also: dicts with different key sets holding None / falsy values, zero-dimension frames, RangeIndex slices, None-vs-NaN in object arrays, overlapping views of one buffer.',
    'C15': 'Also: t-trees whose equal branches are ONE shared object; suite edge_trees: keys containing a dot and t-trees holding empty branches.',
    'C16': "Also: underscore keys as attributes, ulists of tuples, relabel with a caller-owned dict, a member / a definition literally called 'key'.",
    'C17': 'Also: stores of more than 16 rows with sub-millisecond stamps (suite wide), versions stamped by bi_merge through asof / existing_data (plainform), one-column frames (frameform).',
    'C18': 'Also: undeclared keywords spelt like the star parameters, try_list fallbacks after the caller mutated one, cached None results, suite try_exceptions (14 exception payloads x '
           'verbose x repeat x failures before success).',
    'C19': 'Also: companion dicts with partly the same keys, unsorted insertion orders, awaitables that are objects with __await__, lazy coroutines that only complete once started, range / dict-view companions.',
    'C20': "Also: scrambled data / expiry tables, value columns called 'val', one table object for two inputs, one lifted function serving several calls (defaults survive).",
}

EXTRA2 = {'C01': 'd += x, string scalars as long as the table, derived columns from functions reading no column.', 'C02': 'suite modes (every mode on m x n key groups with None / tuple / list cells in the shared column, key-less cross products with non-scalar cells), computed keys in first position.', 'C03': 'the fill method spelt as a list (one list object over several calls), dicts built in non-sorted key order, df_index on nested containers, partly observed frame rows.', 'C05': 'suite range_ends (four-week calendars, results landing on the first / last day of the range) and dates carrying a time of day.', 'C06': 'suite extras (infinite cells / condition values under both readings of NaN, underscored column names, ints beyond 2**53 against floats), predicates wrapped by library decorators.', 'C07': 'ints beyond the float mantissa, dicts with cmp-equal but distinct keys, tables in which one key object recurs between cmp-equal others.', 'C08': 'a fill method on div_ / add_, policy spellings (outer, upper case), operands indexed at another datetime resolution.', 'C09': 'suite compound_intraday (h/n/s parts mixed with business-day parts from intraday starts, starts written as date / datetime64 / Timestamp / int / string, tz-aware starts, named tenors inside multi-bump calls).', 'C11': 'string keys differing only in case, a column called grp / a grp label naming a column, a key column whose name contains the other names.', 'C12': 'row-dropping steps before fnna, a constant with a limit (array-vs-pandas only).', 'C13': 'one timestamp occurring twice, NaN-valued rows in stitched series.', 'C14': 'namedtuple / list-subclass instances, int arrays beyond 2**53 against float arrays, object arrays holding one-element arrays, empty arrays of different shapes.', 'C16': 'values that are themselves mappings (d + other into them, d - k.x), dependencies declared with Python defaults, a NaN object as ulist element.', 'C17': 'suite axes: forward-dated observation dates, versions listing dates newest first, revisions in the tenth digit, tz-aware stamps read in another zone.', 'C18': 'pd2np built with exc=, callargs surviving call_with_callargs, sentinel-object defaults, suite cache_reentrant (a cached recursive function).', 'C19': 'dict companions in another insertion order / as dictattr, a 1-tuple holding a list in zipper.', 'C20': 'explicit empty defaults on a function with Python defaults, list-valued scalars, tables carrying extra columns called data / expiry.'}
for _k, _v in EXTRA2.items():
    EXTRA[_k] = EXTRA[_k] + ' Later rounds: ' + _v

EXTRA3 = {
    'C01': "derived columns named after / reading the column called key, emptying a table again, a column called key at construction.",
    'C02': "suite close (numeric keys one unit apart and floats next to ints), typed computed keys against a plain key column, a right table made of the key columns only with the names reversed.",
    'C03': "all-keyword calls with reversed argument order, integer / bool arrays, infinite observations under ffill / bfill, the df_sync.oj.bfill property chain.",
    'C04': "4- and 5-part spellings, lists of mixed spellings through dt / ymd, a caller-owned list of datetimes, dialect='US'.",
    'C05': "range endpoints spelt as business-day bumps, calendar copies (cal(adj=...), Calendar(cal)), list / tuple / dict arguments of adjust with a per-call adj.",
    'C06': "equal-record rows under type-sensitive predicates, a column called key through find_, columns called data / columns.",
    'C07': "2**64 and -2**63-1, tuple / array value orders, sort - edit - sort on one table, tables with columns called columns / data.",
    'C08': "suite frame_series, scalar operands (10.0 / NaN) in df_sum / mean / count, denominators of 1e-9, infinite numerators, the same objects after an in-place index shift.",
    'C09': "tz-aware starts, ints among string bumps in named sequences, a timeseries as the start (every index entry).",
    'C10': "a polluted / clean default calendar per case, day steps of 1499 / 1500 / 2000, mixed-sign compound bumps, numpy integer bumps.",
    'C11': "dict-spelt unpivot with reversed labels, a callable y, labels called like the unpivot names, labels spelt like spreadsheet junk ('#1', 'n/a'), an aggregator that hands its argument on.",
    'C12': "about 20 mixed method lists incl. two tail-aware methods, frames with two columns labelled alike, caller-owned method lists, NaN / infinite / negative / numpy constants.",
    'C13': "six bound spellings on a half-day grid, tuple spelling, tz-aware and ns / s indexes, frames without columns, one bound a date and the other a time of day, repeated stamps in wrapped windows.",
    'C14': "buffer views, a cell model comparing .item() values, object arrays in different memory layouts (transposed view, F-order, reversed view).",
    'C15': "leaf=True cut patterns and wildcard-spelt cells in table_tree, the empty string as a key, list / tuple leaf cells in a single row given as a dict.",
    'C16': "relabel to the empty name, nested mapping values, falsy single elements (None, 0, '') as ulist operands.",
    'C17': "mixed lists (plain series next to Bi frames), caller-owned version lists, a zero value, a publication after every re-merge of an older version, read times spelt as numpy.datetime64 / Timestamp.",
    'C18': "4-deep stacks, the order of undeclared keywords, mutating cached arguments, re-wrapping leaves the wrapped operand unchanged (chain and answers), None / 0 / '' / () in every call slot.",
    'C19': "numeric dict keys, a second lifted function with keyword defaults, as_list sharing no state with its argument.",
    'C20': "None cells under defaults, a scalar expiry, renames, a partial cache under a custom column, suites partial_keys (a table keyed by one of two key columns) and named_outputs (f.output with a dict result).",
}
for _k, _v in EXTRA3.items():
    EXTRA[_k] = EXTRA[_k] + ' Rounds 7-9: ' + _v

EXTRA4 = {
    'C01': "a filter dict passed together with a keyword filter, two functions in one call with the reader listed first.",
    'C05': "upper-case business-day bumps through Calendar.dt_bump, answers outside the calendar range (refused or right, never wrong).",
    'C09': "numpy integer day counts.",
    'C11': "NaN keys carried by shared and fresh objects in one column, one unpivot spec dict used twice.",
    'C15': "sums started from an empty Dict, suite ignore_lists (list leaves, ignore lists whose only element is a list).",
    'C04': "day overflow combined with time-of-day parts, numeric dd-mm-yyyy / mm-dd-yyyy strings joined to the time by 'T' (incl. the rejections).",
    'C06': "a predicate whose parameters come in another order than the columns, patterns compiled with re.IGNORECASE.",
    'C10': "compound bumps with a zero business-day piece ('1w0b', '1m0b', ...).",
    'C12': "float32 arrays.",
    'C14': "np.float32(0.1) / np.float16(0.3) against the Python floats, frames with one column label twice.",
    'C16': "mapping-valued constants in Dict.__call__ (replace, not merge; untouched members by identity), d[k1, 'k0.x'] with dotted paths.",
    'C18': "every layer of a stack used before the next is wrapped around it and re-probed after the new wrapper was used (cache-sharing defect, fixed).",
    'C19': "Dict companions with keys of their own (class preserved), the none flag of as_list / as_tuple.",
    'C20': "suite output_is_input (six settings x data subsets x expiry kinds), an earlier result for only one of two named outputs.",
}
for _k, _v in EXTRA4.items():
    EXTRA[_k] = EXTRA[_k] + ' Round 10: ' + _v

NOT_READY = set([])

PENDING_REASON = 'check under construction in this session (claimed in DESIGN.md; will move to checks once its module is committed)'


def main():
    props = [json.loads(l)['id'] for l in open(os.path.join(HERE, 'properties.jsonl'))]
    checks = []
    for pid in props:
        if pid not in CHECKS or pid in NOT_READY:
            continue
        eng, tech, text, note, ref = CHECKS[pid]
        checks.append(dict(
            property_id=pid,
            quick_cmd='./check %s --tier quick' % pid,
            thorough_cmd='./check %s --tier thorough' % pid,
            evidence_file='/verif/evidence/%s.json' % pid,
            replay_cmd_template='./check %s --replay {path}' % pid,
            engine=eng,
            level_claimed=dict(category='model_checking', text=text + (' ' + EXTRA[pid] if pid in EXTRA else ''), design_ref=ref),
            level_note=note,
            technique=tech,
        ))
    engines = [
        dict(name='E1', path='mc/engine.py', kind_free_text='explicit-state breadth-first search over operation histories on the real objects, '
             'canonical-state de-duplication, reference model in lock-step on every transition',
             serves_properties=[p for p in props if p in CHECKS and p not in NOT_READY and 'E1' in CHECKS[p][0]]),
        dict(name='E2', path='mc/engine.py', kind_free_text='small-scope exhaustive enumerator: complete product over explicit finite domains, '
             'every case executed on the implementation and compared with a reference model',
             serves_properties=[p for p in props if p in CHECKS and p not in NOT_READY and 'E2' in CHECKS[p][0]]),
        dict(name='E3', path='mc/props/c19.py', kind_free_text='completion-order (schedule) enumerator on a real asyncio loop driven by harness-owned futures',
             serves_properties=[p for p in props if p in CHECKS and p not in NOT_READY and 'E3' in CHECKS[p][0]]),
        dict(name='E4', path='mc/props/c02.py', kind_free_text='termination monitor: lasso detection on the merge cursors at while-headers plus deterministic fuel (sys.settrace)',
             serves_properties=[p for p in props if p in CHECKS and p not in NOT_READY and 'E4' in CHECKS[p][0]]),
    ]
    m = dict(
        version=1,
        setup_cmd='cd /verif && /venv/bin/python -m compileall -q mc tools >/dev/null && /opt/veriftools/pyvenv/bin/python tools/validate.py manifest',
        hooks=dict(guard='PYG_BASE_VERIF',
                   enable='no source hooks: checks import ${VERIF_REPO:-/repo}/src directly from the working tree; observation points are public API, '
                          'harness-owned call counters and sys.settrace',
                   baseline_off_cmd=BASELINE, source_commits=[], add_only=True),
        engines=engines,
        checks=checks,
        not_applicable=[dict(property_id=p, reason=PENDING_REASON) for p in props if p not in CHECKS or p in NOT_READY],
        notes='All checks are bounded-exhaustive explorations (model checking of the implementation against executable reference models); '
              'see DESIGN.md. Known findings: /verif/known_findings.json. Seeded mutants: /verif/seeded/.',
    )
    with open(os.path.join(HERE, 'MANIFEST.json'), 'w') as f:
        json.dump(m, f, indent=1)
    vt = '/opt/veriftools/pyvenv/bin/python'
    return subprocess.call([vt, os.path.join(HERE, 'tools', 'validate.py'), 'manifest'])


if __name__ == '__main__':
    sys.exit(main())
