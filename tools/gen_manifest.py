"""python3 tools/gen_manifest.py  -- (re)writes /verif/MANIFEST.json from the table below and validates it."""
import json
import os
import subprocess
import sys

HERE = os.path.dirname(os.path.dirname(os.path.abspath(__file__)))

BASELINE = ("cd /repo && /venv/bin/python -m pytest -ra -q -p no:cacheprovider --timeout=900 "
            "--continue-on-collection-errors")

# id -> (engine, technique, level text, level note, design ref)
CHECKS = {
    'C06': ('E2', 'bounded exhaustive enumeration of inputs (all tables x all conditions) against a reference predicate filter',
            'Every x-column of 0..4 (quick) / 0..5 (thorough) rows over a 7-value cell domain against a closed menu of 68 conditions is run on the '
            'real inc/exc/find_/one_or_none and compared with a Python predicate filter: partition, order, columns kept on empty results, '
            'idempotence, operand untouched. Exhaustive inside the bound, silent outside it.',
            'Bounded: tables <=5 rows, one filtered column plus a row-id and a constant column, the listed condition menu; +-inf cells, NaN '
            'inside value lists and several callables at once are outside the statement and not checked. pandas 3.0.6 / numpy 2.5.3 / CPython 3.12.',
            'DESIGN.md section 4, C06'),
}

PENDING_REASON = 'check under construction in this session (claimed in DESIGN.md; will move to checks once its module is committed)'


def main():
    props = [json.loads(l)['id'] for l in open(os.path.join(HERE, 'properties.jsonl'))]
    checks = []
    for pid in props:
        if pid not in CHECKS:
            continue
        eng, tech, text, note, ref = CHECKS[pid]
        checks.append(dict(
            property_id=pid,
            quick_cmd='./check %s --tier quick' % pid,
            thorough_cmd='./check %s --tier thorough' % pid,
            evidence_file='/verif/evidence/%s.json' % pid,
            replay_cmd_template='./check %s --replay {path}' % pid,
            engine=eng,
            level_claimed=dict(category='model_checking', text=text, design_ref=ref),
            level_note=note,
            technique=tech,
        ))
    engines = [
        dict(name='E1', path='mc/engine.py', kind_free_text='explicit-state breadth-first search over operation histories on the real objects, '
             'canonical-state de-duplication, reference model in lock-step on every transition',
             serves_properties=[p for p in props if p in CHECKS and 'E1' in CHECKS[p][0]]),
        dict(name='E2', path='mc/engine.py', kind_free_text='small-scope exhaustive enumerator: complete product over explicit finite domains, '
             'every case executed on the implementation and compared with a reference model',
             serves_properties=[p for p in props if p in CHECKS and 'E2' in CHECKS[p][0]]),
        dict(name='E3', path='mc/props/c19.py', kind_free_text='completion-order (schedule) enumerator on a real asyncio loop driven by harness-owned futures',
             serves_properties=[p for p in props if p in CHECKS and 'E3' in CHECKS[p][0]]),
        dict(name='E4', path='mc/props/c02.py', kind_free_text='termination monitor: lasso detection on the merge cursors at while-headers plus deterministic fuel (sys.settrace)',
             serves_properties=[p for p in props if p in CHECKS and 'E4' in CHECKS[p][0]]),
    ]
    m = dict(
        version=1,
        setup_cmd='cd /verif && /venv/bin/python -m compileall -q mc tools >/dev/null && /opt/veriftools/pyvenv/bin/python tools/validate.py manifest',
        hooks=dict(guard='PYG_BASE_VERIF',
                   enable='no source hooks: checks import ${VERIF_REPO:-/repo}/src directly from the working tree; observation points are public API, '
                          'harness-owned call counters and sys.settrace',
                   baseline_off_cmd=BASELINE, source_commits=[], add_only=True),
        engines=engines,
        checks=checks,
        not_applicable=[dict(property_id=p, reason=PENDING_REASON) for p in props if p not in CHECKS],
        notes='All checks are bounded-exhaustive explorations (model checking of the implementation against executable reference models); '
              'see DESIGN.md. Known findings: /verif/known_findings.json. Seeded mutants: /verif/seeded/.',
    )
    with open(os.path.join(HERE, 'MANIFEST.json'), 'w') as f:
        json.dump(m, f, indent=1)
    vt = '/opt/veriftools/pyvenv/bin/python'
    return subprocess.call([vt, os.path.join(HERE, 'tools', 'validate.py'), 'manifest'])


if __name__ == '__main__':
    sys.exit(main())
