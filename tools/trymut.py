"""/venv/bin/python tools/trymut.py PROP FILE OLD NEW [--baseline] [--tier quick] [--suite S]

Ad-hoc mutation probe: copies /repo (src + tests) to a scratch dir outside /repo and /verif, replaces the single occurrence
of OLD by NEW in src/pyg_base/FILE, optionally runs the pinned baseline there (must stay green for the mutant to count),
runs ./check PROP with VERIF_REPO pointing at the copy, prints the verdict lines and removes the copy.
"""
import os
import shutil
import subprocess
import sys
import tempfile

HERE = os.path.dirname(os.path.dirname(os.path.abspath(__file__)))


def main():
    args = sys.argv[1:]
    baseline = '--baseline' in args
    if baseline:
        args.remove('--baseline')
    extra = []
    while len(args) > 4:
        extra = args[4:]
        args = args[:4]
    prop, rel, old, new = args
    d = tempfile.mkdtemp(prefix='pygmut.')
    try:
        shutil.copytree('/repo/src', os.path.join(d, 'src'))
        shutil.copytree('/repo/tests', os.path.join(d, 'tests'))
        for f in ('setup.cfg', 'pyproject.toml'):
            if os.path.exists('/repo/' + f):
                shutil.copy('/repo/' + f, d)
        p = os.path.join(d, 'src', 'pyg_base', rel)
        s = open(p).read()
        if s.count(old) != 1:
            print('ERROR: %d occurrences of OLD in %s' % (s.count(old), rel))
            return 2
        open(p, 'w').write(s.replace(old, new))
        if baseline:
            r = subprocess.run(['/venv/bin/python', os.path.join(HERE, 'tools', 'run_baseline.py'), d], capture_output=True, text=True)
            print('BASELINE:', r.stdout.strip().splitlines()[0] if r.stdout.strip() else r.stderr[-300:])
            for l in r.stdout.splitlines():
                if 'NOT PASSING' in l:
                    print(l)
        env = dict(os.environ, VERIF_REPO=d)
        r = subprocess.run([os.path.join(HERE, 'check'), prop, '--no-crosscheck'] + extra, env=env, capture_output=True, text=True, cwd=HERE)
        lines = r.stdout.splitlines()
        viol = [l for l in lines if l.startswith('VIOLATION')]
        for l in viol[:4]:
            print(l[:600])
        print('... %d VIOLATION lines; exit=%d; %s' % (len(viol), r.returncode, lines[-1] if lines else r.stderr[-300:]))
        return 0
    finally:
        shutil.rmtree(d, ignore_errors=True)
        # replays written for the mutant are not evidence of anything on the real tree
        rp = os.path.join(HERE, 'replays', prop.upper())
        shutil.rmtree(rp, ignore_errors=True)


sys.exit(main())
