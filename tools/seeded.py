"""/venv/bin/python tools/seeded.py verify NAME PROP SRC_DIR [--tier quick] [--also C07,C11]
   /venv/bin/python tools/seeded.py recheck [NAME...]           (re-run the checks against every stored seeded change)

verify: SRC_DIR holds patch.diff, demo.py (and NOTES.md) written by an independent sub-agent. This tool
  1. makes a fresh scratch worktree of /repo HEAD outside /repo and /verif and applies the patch there,
  2. runs the pinned baseline there (the 224 stable tests must still pass),
  3. runs demo.py against the patched tree (must fail) and against /repo (must pass),
  4. runs ./check PROP (and the --also checks) with VERIF_REPO=<scratch> under VERIF_SEED 0,1,2,
  5. stores /verif/seeded/NAME/{patch.diff, demo.py, NOTES.md, meta.json} when 1-3 hold (whether or not the check catches it),
  6. removes the scratch worktree.
"""
import json
import os
import shutil
import subprocess
import sys
import tempfile
import time

HERE = os.path.dirname(os.path.dirname(os.path.abspath(__file__)))
PY = '/venv/bin/python'


def sh(cmd, **kw):
    return subprocess.run(cmd, capture_output=True, text=True, **kw)


def scratch_with_patch(patch):
    d = tempfile.mkdtemp(prefix='pygseed.')
    os.rmdir(d)
    r = sh(['git', '-C', '/repo', 'worktree', 'add', '--detach', '-q', d, 'HEAD'])
    if r.returncode:
        raise RuntimeError(r.stderr)
    r = sh(['git', '-C', d, 'apply', '--whitespace=nowarn', patch])
    if r.returncode:
        drop(d)
        raise RuntimeError('patch does not apply to /repo HEAD: ' + r.stderr)
    return d


def drop(d):
    sh(['git', '-C', '/repo', 'worktree', 'remove', '--force', d])
    shutil.rmtree(d, ignore_errors=True)
    sh(['git', '-C', '/repo', 'worktree', 'prune'])


def run_demo(demo, tree):
    env = dict(os.environ, PYTHONPATH=os.path.join(tree, 'src'), PYTHONDONTWRITEBYTECODE='1')
    r = sh([PY, '-W', 'ignore', demo], env=env, cwd=tempfile.gettempdir())
    return r.returncode, (r.stdout + r.stderr)[-400:]


def run_checks(props, tree, tier, seeds=(0, 1, 2)):
    res = {}
    for p in props:
        per = []
        for seed in seeds:
            env = dict(os.environ, VERIF_REPO=tree, VERIF_SEED=str(seed))
            t0 = time.time()
            r = sh([os.path.join(HERE, 'check'), p, '--tier', tier, '--no-crosscheck'], env=env, cwd=HERE)
            lines = r.stdout.splitlines()
            viol = [l for l in lines if l.startswith('VIOLATION')]
            per.append(dict(seed=seed, rc=r.returncode, violations=len(viol), first=(viol[0][:500] if viol else None), wall_s=round(time.time() - t0, 1),
                            last=lines[-1][:200] if lines else r.stderr[-200:]))
            if seed == 0 and r.returncode == 0:
                break           # not caught with seed 0: the other seeds explore the same bound
        res[p] = per
        shutil.rmtree(os.path.join(HERE, 'replays', p), ignore_errors=True)
    return res


def verify(name, prop, src, tier='quick', also=()):
    patch = os.path.join(src, 'patch.diff')
    demo = os.path.join(src, 'demo.py')
    d = scratch_with_patch(patch)
    try:
        b = sh([PY, os.path.join(HERE, 'tools', 'run_baseline.py'), d])
        baseline_ok = b.returncode == 0
        print('baseline:', b.stdout.strip().splitlines()[0] if b.stdout.strip() else b.stderr[-300:])
        rc_p, out_p = run_demo(demo, d)
        rc_o, out_o = run_demo(demo, '/repo')
        print('demo on patched tree rc=%d, on /repo rc=%d' % (rc_p, rc_o))
        valid = baseline_ok and rc_p != 0 and rc_o == 0
        checks = run_checks([prop] + list(also), d, tier) if valid else {}
        for p, per in checks.items():
            print('check %s: %s' % (p, [(x['seed'], x['rc'], x['violations']) for x in per]))
            if per and per[0]['first']:
                print('   ', per[0]['first'][:300])
        caught = [p for p, per in checks.items() if per and all(x['rc'] == 1 and x['violations'] > 0 for x in per)]
        meta = dict(name=name, property=prop, valid=valid, baseline_stable_tests_pass=baseline_ok, demo_fails_with_change=rc_p != 0, demo_passes_without=rc_o == 0,
                    demo_output_with_change=out_p, tier=tier, checks=checks, caught_by=caught,
                    ran=['tools/run_baseline.py <scratch worktree with the patch>', 'demo.py with PYTHONPATH=<scratch>/src and with PYTHONPATH=/repo/src',
                         'VERIF_REPO=<scratch> VERIF_SEED={0,1,2} ./check %s --tier %s --no-crosscheck' % (','.join([prop] + list(also)), tier)],
                    repo_head=sh(['git', '-C', '/repo', 'rev-parse', '--short', 'HEAD']).stdout.strip())
        notes = os.path.join(src, 'NOTES.md')
        if os.path.exists(notes):
            meta['needs_to_manifest'] = open(notes).read()[:3000]
        if valid:
            dst = os.path.join(HERE, 'seeded', name)
            os.makedirs(dst, exist_ok=True)
            shutil.copy(patch, os.path.join(dst, 'patch.diff'))
            shutil.copy(demo, os.path.join(dst, 'demo.py'))
            if os.path.exists(notes):
                shutil.copy(notes, os.path.join(dst, 'NOTES.md'))
            json.dump(meta, open(os.path.join(dst, 'meta.json'), 'w'), indent=1)
            print('stored seeded/%s  caught_by=%s' % (name, caught))
        else:
            print('NOT VALID (baseline_ok=%s demo_fails_with_change=%s demo_passes_without=%s) - not stored' % (baseline_ok, rc_p != 0, rc_o == 0))
            print(out_p[-300:])
            print(out_o[-300:])
        return 0
    finally:
        drop(d)


def recheck(names, tier='quick'):
    root = os.path.join(HERE, 'seeded')
    names = names or sorted(os.listdir(root))
    rc = 0
    for n in names:
        mp = os.path.join(root, n, 'meta.json')
        if not os.path.exists(mp):
            continue
        meta = json.load(open(mp))
        try:
            d = scratch_with_patch(os.path.join(root, n, 'patch.diff'))
        except RuntimeError as e:
            print('%-28s property=%s PATCH DOES NOT APPLY to /repo HEAD (%s)' % (n, meta['property'], str(e).strip().splitlines()[-1][:120]))
            rc = 1
            continue
        try:
            props = sorted(set([meta['property']] + list(meta.get('checks', {}).keys())))
            checks = run_checks(props, d, tier, seeds=(0,))
            caught = [p for p, per in checks.items() if per and per[0]['rc'] == 1]
            print('%-28s property=%s caught_by=%s' % (n, meta['property'], caught))
            meta['caught_by'] = caught
            meta['checks'] = checks
            meta['tier'] = tier
            json.dump(meta, open(mp, 'w'), indent=1)
            if not caught:
                rc = 1
        finally:
            drop(d)
    return rc


def main():
    a = sys.argv[1:]
    if a[0] == 'verify':
        tier, also = 'quick', ()
        rest = a[1:]
        if '--tier' in rest:
            i = rest.index('--tier'); tier = rest[i + 1]; del rest[i:i + 2]
        if '--also' in rest:
            i = rest.index('--also'); also = tuple(rest[i + 1].split(',')); del rest[i:i + 2]
        return verify(rest[0], rest[1], rest[2], tier, also)
    if a[0] == 'recheck':
        tier = 'quick'
        rest = a[1:]
        if '--tier' in rest:
            i = rest.index('--tier'); tier = rest[i + 1]; del rest[i:i + 2]
        return recheck(rest, tier)
    print(__doc__)
    return 2


sys.exit(main())
