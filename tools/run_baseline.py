"""/venv/bin/python tools/run_baseline.py [TREE]   (default /repo)

Runs the repository's pinned baseline (command of /root/.vp/BASELINE.json) in TREE with PYTHONPATH=TREE/src
(so a scratch copy is tested, not the editable install) and reports which of the 224 stable tests do not pass.
Exit 0 iff all stable tests pass.  Prints also which always-failing tests now pass.
"""
import json
import os
import subprocess
import sys
import tempfile
import xml.etree.ElementTree as ET


def main():
    tree = os.path.abspath(sys.argv[1] if len(sys.argv) > 1 else '/repo')
    base = json.load(open('/root/.vp/BASELINE.json'))
    stable = set(base['stable_pass'])
    fd, xml = tempfile.mkstemp(suffix='.junit.xml')
    os.close(fd)
    env = dict(os.environ, PYTHONPATH=os.path.join(tree, 'src'), PYTHONDONTWRITEBYTECODE='1')
    env.pop('PYG_BASE_VERIF', None)
    sel = sys.argv[2:]  # optional pytest selection
    cmd = ['/venv/bin/python', '-m', 'pytest', '-ra', '-q', '-p', 'no:cacheprovider', '--timeout=900',
           '--continue-on-collection-errors', '--junitxml=' + xml, '-n', '8'] + sel
    p = subprocess.run(cmd, cwd=tree, env=env, capture_output=True, text=True)
    passed = set()
    try:
        root = ET.parse(xml).getroot()
        for tc in root.iter('testcase'):
            name = '%s::%s' % (tc.get('classname'), tc.get('name'))
            if not any(ch.tag in ('failure', 'error', 'skipped') for ch in tc):
                passed.add(name)
    finally:
        os.unlink(xml)
    # make sure the tree under test is what was imported
    chk = subprocess.run(['/venv/bin/python', '-W', 'ignore', '-c', 'import pyg_base,os;print(os.path.realpath(pyg_base.__file__))'],
                         cwd=tree, env=env, capture_output=True, text=True)
    where = chk.stdout.strip().splitlines()[-1] if chk.stdout.strip() else '?'
    if not where.startswith(os.path.realpath(tree)):
        print('ERROR: tests imported pyg_base from %s, not from %s' % (where, tree))
        return 2
    missing = sorted(stable - passed) if not sel else []
    extra = sorted(passed - stable)
    print('baseline in %s: %d passed, stable-not-passing=%d, newly-passing=%d' % (tree, len(passed), len(missing), len(extra)))
    for m in missing[:40]:
        print('  NOT PASSING:', m)
    for e in extra:
        print('  newly passing:', e)
    if missing:
        print(p.stdout[-3000:])
    return 1 if missing else 0


sys.exit(main())
